"""Run one Kani harness under a memory/time cap and parse what CBMC reported.

A result is one of
  PASS          VERIFICATION:- SUCCESSFUL, no failed / undetermined check,
                every kani::cover! satisfied, unwinding assertions included
  FAIL          at least one failed check that is not an unwinding assertion
                (a counterexample exists within the bounds)
  INCONCLUSIVE  anything else: timeout, out of memory, tool error, a failed
                unwinding assertion (bound too small), an unsatisfied cover
INCONCLUSIVE is never reported as a pass and never as a violation.
"""
import os
import re
import subprocess
import time

VERIF = os.path.dirname(os.path.dirname(os.path.abspath(__file__)))
HARNESS_DIR = os.path.join(VERIF, "harness")
TARGET_ROOT = os.environ.get("VERIF_TARGET_ROOT", os.path.join(VERIF, "target"))
LOG_DIR = os.path.join(VERIF, "logs")
GUARD = "--cfg burntsushi_fst_verif"

CHECK_RE = re.compile(
    r"^Check (\d+): (.+)\n\t - Status: (\w+)\n\t - Description: \"(.*)\"\n\t - Location: (.*)$",
    re.M,
)


def base_env():
    env = dict(os.environ)
    env["CARGO_NET_OFFLINE"] = "true"
    env["RUSTFLAGS"] = GUARD
    env.pop("RUSTUP_TOOLCHAIN", None)
    return env


class Obligation:
    """One solver query: a Kani harness plus its bounds."""

    def __init__(self, harness, desc, unwind=None, unwindset=None, timeout=900,
                 mem_gb=8, expect="pass", stubbing=False, functions=(),
                 bounds="", kind="kani", extra=None, covers_required=True,
                 full_checks=False, artifact=None, group=None, core=True):
        self.harness = harness
        self.desc = desc
        self.unwind = unwind              # --default-unwind override (None: attribute in source)
        self.unwindset = unwindset or []  # [(regex on demangled fn name, loop index or None, bound)]
        self.timeout = timeout
        self.mem_gb = mem_gb
        self.expect = expect              # "pass" | "fail" (vacuity twin: must come back violated)
        self.stubbing = stubbing
        self.functions = list(functions)
        self.bounds = bounds
        self.kind = kind
        self.extra = extra or []
        self.covers_required = covers_required
        # full_checks: keep CBMC's pointer-validity instrumentation and the
        # per-assertion reachability checks (C20). Otherwise they are off:
        # the crate has no unsafe code, Rust's own panics (bounds, overflow,
        # unwrap, assert) stay on, and vacuity is guarded by kani::cover!
        # witnesses and a must-fail twin per family.
        self.full_checks = full_checks
        self.artifact = artifact
        self.group = group
        self.core = core


def _run(cmd, env, cwd, timeout, mem_gb, log_path):
    """Run under ulimit -v and timeout; kill the whole process group on expiry."""
    kb = int(mem_gb * 1024 * 1024)
    shell = "ulimit -v %d; exec %s" % (kb, " ".join(_q(c) for c in cmd))
    t0 = time.time()
    with open(log_path, "wb") as log:
        p = subprocess.Popen(["bash", "-c", shell], cwd=cwd, env=env, stdout=log,
                             stderr=subprocess.STDOUT, start_new_session=True)
        timed_out = False
        try:
            p.wait(timeout=timeout)
        except subprocess.TimeoutExpired:
            timed_out = True
            try:
                os.killpg(p.pid, 9)
            except ProcessLookupError:
                pass
            p.wait()
    return p.returncode, timed_out, time.time() - t0


def _q(s):
    if re.match(r"^[A-Za-z0-9_./:=,@+-]+$", s):
        return s
    return "'" + s.replace("'", "'\\''") + "'"


def kani_cmd(ob, target_dir, playback=False):
    cmd = ["cargo", "kani", "--harness", ob.harness, "--exact", "--target-dir", target_dir]
    if ob.unwind is not None:
        cmd += ["--default-unwind", str(ob.unwind)]
    if ob.stubbing:
        cmd += ["-Z", "stubbing"]
    if playback:
        cmd += ["-Z", "concrete-playback", "--concrete-playback=print"]
    cmd += ["-Z", "unstable-options"]
    if not ob.full_checks:
        cmd += ["--no-memory-safety-checks", "--no-assertion-reach-checks"]
    cmd += ob.extra
    return cmd


def resolve_unwindset(ob, target_dir, env, log_prefix):
    """Per-loop bounds: codegen only, list loops with cbmc --show-loops, match rules."""
    cmd = kani_cmd(ob, target_dir)
    if "--cbmc-args" in cmd:
        cmd = cmd[:cmd.index("--cbmc-args")]
    cmd += ["--only-codegen"]
    rc, to, _ = _run(cmd, env, HARNESS_DIR, 600, 8, log_prefix + ".codegen.log")
    if rc != 0:
        return None, "codegen failed (rc=%s)" % rc
    outs = subprocess.run(
        ["bash", "-c", "ls -t %s/kani/*/debug/build/fstverif/*/out/*%s.out 2>/dev/null | head -1"
         % (target_dir, ob.harness.split("::")[-1])], capture_output=True, text=True).stdout.strip()
    if not outs:
        # fall back: any goto binary mentioning the harness name
        outs = subprocess.run(
            ["bash", "-c", "ls -t %s/kani/*/debug/build/fstverif/*/out/*.out | grep %s | head -1"
             % (target_dir, ob.harness.split("::")[-1])], capture_output=True, text=True).stdout.strip()
    if not outs:
        return None, "goto binary not found"
    loops = subprocess.run(["cbmc", "--show-loops", outs], capture_output=True, text=True).stdout
    ids = []
    for m in re.finditer(r"^Loop (\S+):\n\s+file (\S+) line (\d+)(?: column \d+)? function (.+)$", loops, re.M):
        ids.append((m.group(1), m.group(2), int(m.group(3)), m.group(4)))
    pairs = []
    unmatched_rules = []
    for rule in ob.unwindset:
        pat, bound = rule[0], rule[-1]
        want_idx = rule[1] if len(rule) == 3 else None
        hit = False
        for (lid, f, line, fn) in ids:
            if want_idx is not None and not lid.endswith(".%d" % want_idx):
                continue
            if re.search(pat, fn) or re.search(pat, "%s:%d" % (f, line)):
                pairs.append("%s:%d" % (lid, bound))
                hit = True
        if not hit:
            unmatched_rules.append(pat)
    return pairs, unmatched_rules


def run_obligation(ob, slot, playback=False):
    os.makedirs(LOG_DIR, exist_ok=True)
    target_dir = os.path.join(TARGET_ROOT, "k%d" % slot)
    env = base_env()
    if playback:
        env["RUSTFLAGS"] = GUARD + " --cfg verif_playback"
    log_prefix = os.path.join(LOG_DIR, ob.harness.replace("::", "__"))
    cmd = kani_cmd(ob, target_dir, playback=playback)
    note = ""
    if ob.unwindset:
        pairs, unmatched = resolve_unwindset(ob, target_dir, env, log_prefix)
        if pairs is None:
            return {"harness": ob.harness, "verdict": "INCONCLUSIVE", "why": unmatched,
                    "wall_s": 0.0, "log": log_prefix + ".codegen.log"}
        if pairs:
            if "unstable-options" not in cmd:
                cmd += ["-Z", "unstable-options"]
            if "--cbmc-args" in cmd:
                cmd += ["--unwindset", ",".join(pairs)]
            else:
                cmd += ["--cbmc-args", "--unwindset", ",".join(pairs)]
        note = "unwindset=%s unmatched_rules=%s" % (",".join(pairs), unmatched)
    log_path = log_prefix + (".playback.log" if playback else ".log")
    rc, timed_out, wall = _run(cmd, env, HARNESS_DIR, ob.timeout, ob.mem_gb, log_path)
    res = parse_log(log_path)
    res.update({"harness": ob.harness, "wall_s": round(wall, 2), "log": log_path, "rc": rc,
                "cmd": " ".join(_q(c) for c in cmd), "note": note})
    if timed_out:
        res["verdict"] = "INCONCLUSIVE"
        res["why"] = "timeout after %ds" % ob.timeout
        return res
    res["verdict"], res["why"] = classify(res, ob)
    return res


def parse_log(path):
    with open(path, "rb") as f:
        text = f.read().decode("utf-8", "replace")
    checks = [(m.group(2), m.group(3), m.group(4), m.group(5)) for m in CHECK_RE.finditer(text)]
    counts = {}
    for (_, st, _, _) in checks:
        counts[st] = counts.get(st, 0) + 1
    failed = [c for c in checks if c[1] == "FAILURE"]
    undet = [c for c in checks if c[1] in ("UNDETERMINED", "ERROR")]
    covers_unsat = [c for c in checks if c[1] in ("UNSATISFIABLE", "UNREACHABLE") and ".cover." in c[0]]
    covers_sat = [c for c in checks if c[1] == "SATISFIED"]
    m = re.search(r"VERIFICATION:- (SUCCESSFUL|FAILED)", text)
    verification = m.group(1) if m else None
    vt = re.search(r"Verification Time: ([\d.]+)s", text)
    symex = re.search(r"Runtime Symex: ([\d.eE+-]+)s", text)
    solver = re.findall(r"Runtime Solver: ([\d.eE+-]+)s", text)
    decision = re.findall(r"Runtime decision procedure: ([\d.eE+-]+)s", text)
    vccs = re.search(r"Generated (\d+) VCC\(s\), (\d+) remaining after simplification", text)
    sat_size = re.findall(r"(\d+) variables, (\d+) clauses", text)
    stubs = re.findall(r"- Stub: (.*)", text)
    oom = bool(re.search(r"std::bad_alloc|Out of memory|out of memory|ran out of memory|memory exhausted|MemoryError|Cannot allocate memory", text))
    status_error = "Status: ERROR" in text
    compile_error = bool(re.search(r"^error(\[E\d+\])?:", text, re.M))
    return {
        "verification": verification,
        "n_checks": len(checks),
        "counts": counts,
        "failed": [{"check": c[0], "description": c[2], "location": c[3]} for c in failed],
        "undetermined": len(undet),
        "covers_satisfied": len(covers_sat),
        "covers_unsatisfied": [{"check": c[0], "description": c[2], "location": c[3]} for c in covers_unsat],
        "verification_time_s": float(vt.group(1)) if vt else None,
        "symex_s": float(symex.group(1)) if symex else None,
        "solver_s": round(sum(float(x) for x in solver), 3) if solver else None,
        "decision_s": round(sum(float(x) for x in decision), 3) if decision else None,
        "vccs": [int(vccs.group(1)), int(vccs.group(2))] if vccs else None,
        "sat_vars_clauses": [int(sat_size[-1][0]), int(sat_size[-1][1])] if sat_size else None,
        "stubs": stubs,
        "oom": oom,
        "status_error": status_error,
        "compile_error": compile_error,
    }


def classify(res, ob):
    if res["compile_error"] and res["verification"] is None:
        return "INCONCLUSIVE", "harness crate did not compile against the current tree"
    if res["verification"] is None:
        return "INCONCLUSIVE", "no verdict (oom=%s rc=%s)" % (res["oom"], res.get("rc"))
    real_fail = [f for f in res["failed"] if "unwinding assertion" not in f["description"]]
    unwind_fail = [f for f in res["failed"] if "unwinding assertion" in f["description"]]
    if res["verification"] == "FAILED":
        if real_fail:
            return "FAIL", "%d failed check(s)" % len(real_fail)
        if unwind_fail:
            return "INCONCLUSIVE", "unwinding assertion failed: bound too small (%s)" % unwind_fail[0]["location"]
        if res["covers_unsatisfied"] and not res["failed"] and not res["undetermined"] and not res["oom"]:
            return "INCONCLUSIVE", "cover not satisfied: %s" % res["covers_unsatisfied"][0]["description"]
        return "INCONCLUSIVE", "FAILED with no failed check (out of memory / tool error)"
    # SUCCESSFUL
    if res["undetermined"]:
        return "INCONCLUSIVE", "undetermined checks"
    if res["failed"]:
        return "INCONCLUSIVE", "SUCCESSFUL but failed checks listed"
    if ob.covers_required and res["covers_unsatisfied"]:
        return "INCONCLUSIVE", "cover not satisfied: %s" % res["covers_unsatisfied"][0]["description"]
    return "PASS", ""
