"""Which solver queries decide which property, per tier.

Every entry is one Kani harness (one SAT query family over the compiled code
of /repo's current tree). `t` = per-harness time cap in seconds, `m` = memory
cap in GB. `core` obligations must be decided for exit 0; non-core ones may
time out (reported as undecided, never as discharged)."""
from .kani import Obligation

CRC_FNS = ["fst::raw::crc32::CheckSummer::update", "fst::raw::crc32::crc32c_slice16",
           "fst::raw::crc32::CheckSummer::masked"]
NODE_ENC = ["fst::raw::node::Node::compile", "fst::raw::node::StateOneTransNext::compile",
            "fst::raw::node::StateOneTrans::compile", "fst::raw::node::StateAnyTrans::compile",
            "fst::raw::node::pack_delta_in", "fst::raw::node::pack_delta_size",
            "fst::bytes::pack_uint", "fst::bytes::pack_uint_in", "fst::bytes::pack_size"]
NODE_DEC = ["fst::raw::node::Node::new", "fst::raw::node::Node::transition", "fst::raw::node::Node::transition_addr",
            "fst::raw::node::Node::find_input", "fst::raw::node::Node::transitions", "fst::raw::node::State::new",
            "fst::raw::node::StateAnyTrans::{sizes,ntrans,end_addr,final_output,trans_addr,input,output,find_input}",
            "fst::raw::node::StateOneTrans::{sizes,end_addr,input,output,trans_addr}",
            "fst::raw::node::StateOneTransNext::{end_addr,input,trans_addr}",
            "fst::raw::node::unpack_delta", "fst::bytes::unpack_uint", "fst::raw::node::common_input",
            "fst::raw::node::common_idx"]
READER = ["fst::raw::Fst::new", "fst::raw::FstRef::get", "fst::raw::FstRef::contains_key"] + NODE_DEC


def ob(h, desc, **kw):
    return Obligation(h, desc, **kw)


def twin(h, desc, **kw):
    kw.setdefault("covers_required", False)
    return Obligation(h, desc, expect="fail", **kw)


def generated(index, prop):
    out = []
    for h in index.get("harnesses", []):
        if h["property"] == prop:
            out.append(h)
    return out


def plan_c01(tier, seed, index):
    P = []
    P.append(ob("c01_pack::c01_pack_roundtrip", "pack/unpack round trip for every u64 and every legal width; pack_size minimal",
                timeout=300, mem_gb=4, functions=["fst::bytes::pack_size", "fst::bytes::pack_uint_in", "fst::bytes::unpack_uint"],
                bounds="all u64, widths 1..8"))
    P.append(ob("c01_node::c01_delta_roundtrip", "address-delta codec for every (node address, target) pair, all widths 1..8",
                timeout=300, mem_gb=4, functions=["fst::raw::node::pack_delta", "fst::raw::node::pack_delta_size", "fst::raw::node::unpack_delta"],
                bounds="all usize pairs with target < node"))
    for t, cap in ((0, 900), (1, 1500), (2, 2400)):
        P.append(ob("c01_node::c01_node_codec_t%d" % t,
                    "fully symbolic node with %d transition(s): real encoder -> real decoder, every accessor, find_input for every byte, form selection, byte extent" % t,
                    timeout=cap, mem_gb=12, functions=NODE_ENC + NODE_DEC,
                    bounds="T=%d; finality, final output, inputs (strictly increasing), outputs (u64), targets (0 or [2,20)) symbolic; node starts at 20 in a 72-byte buffer (1-byte deltas; other widths by c01_delta_roundtrip)" % t))
    P.append(twin("c01_node::c01_node_codec_t1_twin_must_fail", "vacuity twin of the codec harness", timeout=900, mem_gb=12))
    if tier == "thorough":
        P.append(ob("c01_node::c01_node_codec_t3", "as above with 3 transitions", timeout=2400, mem_gb=16, core=False,
                    functions=NODE_ENC + NODE_DEC, bounds="T=3"))
    # the current builder's bytes, read back symbolically (shared with C02)
    gens = generated(index, "C02")
    for h in gens:
        P.append(ob(h["harness"], "[build-then-read] " + h["desc"], timeout=2400 if h["weight"] == "heavy" else 1500,
                    mem_gb=12 if h["weight"] == "heavy" else 8, functions=READER, artifact=h["artifact"],
                    bounds="unwind %d" % h["unwind"], core=False))
    return P


def plan_c02(tier, seed, index):
    P = []
    for h in generated(index, "C02"):
        P.append(ob(h["harness"], h["desc"], timeout=2400 if h["weight"] == "heavy" else 1500,
                    mem_gb=16 if h["weight"] == "heavy" else 8, functions=READER, artifact=h["artifact"],
                    bounds="unwind %d" % h["unwind"], core=(tier == "quick" or h["weight"] != "heavy")))
    P.append(ob("c01_node::c01_node_codec_t1", "find_input for every byte on a symbolic 1-transition node (both one-trans forms, common and uncommon inputs)",
                timeout=1500, mem_gb=12, functions=NODE_DEC, bounds="T=1", core=False))
    P.append(ob("c02_common::c02_common_inputs_inverse", "common-input tables are mutually inverse on the 6-bit range; codec round trip for every byte",
                timeout=300, mem_gb=4, functions=["fst::raw::node::common_idx", "fst::raw::node::common_input"], bounds="all 256 bytes"))
    P.append(twin("c02_common::c02_twin_must_fail", "vacuity twin", timeout=300, mem_gb=4))
    return P


def plan_c06(tier, seed, index):
    P = []
    quick = ["map_111", "map_121", "map_212", "map_011", "map_101", "set_111", "set_122", "set_221", "set_010", "set_100"]
    more = ["map_222", "map_020", "set_222"]
    for n in quick + (more if tier == "thorough" else []):
        kind = "map (insert)" if n.startswith("map") else "set (add)"
        P.append(ob("c06_order::c06_step_%s" % n,
                    "ordering check, %s, key lengths (last,new,next)=%s: accept iff contract, payloads, state after rejection" % (kind, n[-3:]),
                    timeout=900, mem_gb=8, functions=["fst::raw::build::Builder::check_last_key", "fst::raw::build::Builder::new_type (via verif_new_type_with_cache)"],
                    bounds="keys of concrete length %s with symbolic bytes" % n[-3:]))
    P.append(twin("c06_order::c06_twin_must_fail", "vacuity twin", timeout=600, mem_gb=8))
    return P


def plan_c07(tier, seed, index):
    P = []
    us = [["crc32c_slice16", 0, 2]]
    hs = [("c07_step_len1_i1", 1, 1, True, 1200), ("c07_step_len2_i1", 2, 1, True, 2400)]
    if tier == "thorough":
        hs += [("c07_step_len3_i1", 3, 1, False, 3600), ("c07_step_len4_i0", 4, 0, False, 3600), ("c07_step_len4_i2", 4, 2, False, 7200), ("c07_step_len8_i0", 8, 0, False, 7200)]
    for (h, l, i, core, cap) in hs:
        P.append(ob("c07_sink::" + h,
                    "write_all of %d symbolic bytes through CountingWriter over a sink with a fresh symbolic acceptance length per call and up to %d Interrupted: count == accepted, checksum == checksum of accepted bytes, from an arbitrary prior (count, checksum) state" % (l, i),
                    timeout=cap, mem_gb=12, unwindset=us, core=core,
                    functions=["fst::raw::counting_writer::CountingWriter::write", "std::io::Write::write_all (default)", "fst::raw::crc32::CheckSummer::update"],
                    bounds="buffer length %d, <=%d Interrupted, every acceptance schedule" % (l, i)))
    P.append(ob("c07_sink::c07_encoder_capped_t1", "node encoder (1 symbolic transition) into a sink accepting at most `cap` bytes per call (cap symbolic 1..8): same bytes as into an all-accepting sink",
                timeout=2400, mem_gb=12, functions=NODE_ENC, bounds="T=1, cap 1..8", core=False,
                unwindset=[["write_all", 9], ["CapSink.*write|ArraySink.*write", 9], ["pack_uint_in", 9], ["encoder_capped", 25]]))
    if tier == "thorough":
        P.append(ob("c07_sink::c07_encoder_capped_t2", "as above, 2 transitions", timeout=2400, mem_gb=16, functions=NODE_ENC, bounds="T=2", core=False,
                    unwindset=[["write_all", 9], ["CapSink.*write|ArraySink.*write", 9], ["pack_uint_in", 9], ["encoder_capped", 25]]))
    P.append(ob("c07_sink::c07_primitives_le_bytes", "io_write_u64_le / io_write_u32_le / pack_uint_in hand write_all exactly the little-endian bytes",
                timeout=900, mem_gb=8, functions=["fst::bytes::io_write_u64_le", "fst::bytes::io_write_u32_le", "fst::bytes::pack_uint_in"],
                bounds="all u64, all legal widths", covers_required=False))
    if tier == "thorough":
        P.append(ob("c07_sink::c07_primitives_u32", "io_write_u32_le through the chunky sink: sink receives exactly the LE bytes; count and checksum agree",
                    timeout=2400, mem_gb=16, unwindset=us, functions=["fst::bytes::io_write_u32_le"], bounds="all u32, every schedule", core=False))
    P.append(twin("c07_sink::c07_twin_must_fail", "vacuity twin: a short write is possible", timeout=900, mem_gb=8, unwindset=us))
    return P


def plan_c08(tier, seed, index):
    P = []
    light = dict(timeout=900, mem_gb=8, functions=CRC_FNS)
    P.append(ob("c08_crc::c08_byte_step_eq_reference", "1-byte update from any state == bitwise CRC-32C", bounds="all (u32,u8)", **light))
    P.append(ob("c08_crc::c08_empty_update_is_identity", "empty update is the identity; new() starts at 0", bounds="all u32", **light))
    tails = [2, 3, 4] + ([7, 8, 15] if tier == "thorough" else [])
    for l in tails:
        P.append(ob("c08_crc::c08_tail_%d" % l, "%d-byte update from any state == reference fold" % l, bounds="all states, all %d-byte strings" % l,
                    timeout=2400, mem_gb=8, functions=CRC_FNS, core=(l <= 4)))
    P.append(ob("c08_crc::c08_block16_affine2", "the real slice-by-16 block step is GF(2)-affine in (state, 16 data bytes): F(x^y)^F(0)==F(x)^F(y)", bounds="all pairs",
                timeout=1500, mem_gb=12, functions=CRC_FNS, core=False))
    if tier == "thorough":
        P.append(ob("c08_crc::c08_block16_affine", "the same in the three-operand form", bounds="all triples",
                    timeout=2400, mem_gb=12, functions=CRC_FNS, core=False))
    P.append(ob("c08_crc::c08_block16_basis_agree", "block step == 16 reference byte steps at the origin and on all 160 unit vectors", bounds="161 points, symbolic index",
                timeout=1200, mem_gb=8, functions=CRC_FNS))
    if tier == "thorough":
        P.append(ob("c08_crc::c08_reference16_affine", "reference-only lemma: 16 bitwise byte steps are GF(2)-affine", bounds="all triples",
                    timeout=2400, mem_gb=12, functions=["harness-side reference"], core=False))
        P.append(ob("c08_crc::c08_chunking_17", "17 bytes in one call == 16+1 == 1+16 (real code on both sides)", bounds="all states, all 17-byte strings",
                    timeout=2400, mem_gb=12, functions=CRC_FNS, core=False))
    P.append(ob("c08_crc::c08_masking", "masked() == rotr(15) + 0xA282EAD8, injective", bounds="all u32", **light))
    P.append(ob("c08_crc::c08_tables", "TABLE/TABLE16 are the CRC-32C tables for polynomial 0x82F63B78 (every entry, by recurrence)", bounds="all i<256, j<16", **light))
    P.append(ob("c08_crc::c08_step_injective", "update is injective in the byte (fixed state) and in the state (fixed byte): a single altered byte changes the final checksum", bounds="all pairs", **light))
    P.append(ob("c08_crc::c08_burst4_injective", "4-byte update is injective in the data: bursts <= 4 bytes inside the checksummed region change the checksum", bounds="all states, all pairs of 4-byte strings",
                timeout=2400, mem_gb=8, functions=CRC_FNS, core=False))
    P.append(ob("c10_open::c10_classify_40", "a file without checksum (version byte altered to 1 or 2) is never certified: verify() = ChecksumMissing on everything that opens as version 1-2",
                timeout=2400, mem_gb=12, functions=["fst::raw::Fst::new", "fst::raw::Fst::verify"], bounds="all byte strings <= 40 bytes", core=False))
    for n in (36, 40):
        P.append(ob("c08_file::c08_verify_iff_trailer_%d" % n, "on arbitrary %d-byte version-3 files that open: verify() is Ok exactly when the trailer equals the crate's masked checksum of the preceding bytes (no other field can switch the check off)" % n,
                    timeout=1800, mem_gb=12, functions=["fst::raw::Fst::new", "fst::raw::Fst::verify"] + CRC_FNS, bounds="all %d-byte strings with a version-3 header" % n, core=False))
    P.append(ob("c07_sink::c07_step_len2_i1", "the checksum the builder will emit equals the checksum of the bytes the sink accepted, for every write schedule of a 2-byte write_all (independence of chunking)",
                timeout=2400, mem_gb=12, unwindset=[["crc32c_slice16", 0, 2]], functions=["fst::raw::counting_writer::CountingWriter::write"] + CRC_FNS,
                bounds="buffer length 2, <=1 Interrupted, every acceptance schedule", core=False))
    P.append(twin("c08_crc::c08_twin_must_fail", "vacuity twin", timeout=600, mem_gb=8))
    if tier == "thorough":
        P.append(ob("c08_file::c08_builder_trailer_empty", "real builder, empty FST, real CRC: trailer == masked reference CRC of the rest; verifies",
                    timeout=2400, mem_gb=28, functions=["fst::raw::build::Builder::{new_type,into_inner,compile}", "fst::raw::Fst::{new,verify}"] + CRC_FNS,
                    bounds="every type value", core=False))
        P.append(ob("c08_file::c08_mutation_36", "any 36-byte file that opens and verifies, with one byte altered, never opens+verifies",
                    timeout=2400, mem_gb=28, functions=["fst::raw::Fst::{new,verify}"] + CRC_FNS, bounds="N=36, every position, every replacement", core=False))
    return P


def plan_c09(tier, seed, index):
    P = []
    for t, cap in ((0, 900), (1, 1500), (2, 2400)):
        P.append(ob("c09_layout::c09_layout_t%d" % t,
                    "real encoder output for a fully symbolic node with %d transition(s), decoded by the independent layout decoder: extent, finality, count, final output, every transition, form selection" % t,
                    timeout=cap, mem_gb=12, functions=NODE_ENC, bounds="T=%d (as C01 codec harness)" % t))
    if tier == "thorough":
        P.append(ob("c09_layout::c09_layout_t3", "as above, 3 transitions", timeout=2400, mem_gb=16, functions=NODE_ENC, bounds="T=3", core=False))
    P.append(ob("c09_layout::c09_header", "real Builder::new_type(ty): the 16 header bytes are version 3 and the requested type",
                timeout=900, mem_gb=8, functions=["fst::raw::build::Builder::new_type"], bounds="every type value", covers_required=False))
    if tier == "thorough":
        P.append(ob("c09_layout::c09_header_footer_empty", "real Builder::new_type(ty)+into_inner: header version 3, type, root node bytes, key count, root address",
                    timeout=2400, mem_gb=40, functions=["fst::raw::build::Builder::{new_type,into_inner,compile}"], bounds="every type value; empty FST",
                    core=False))
    P.append(ob("c01_pack::c01_pack_roundtrip", "integer packing: round trip for every u64 and width; pack_size is the documented minimal width",
                timeout=300, mem_gb=4, functions=["fst::bytes::pack_size", "fst::bytes::pack_uint_in", "fst::bytes::unpack_uint"], bounds="all u64"))
    P.append(ob("c01_node::c01_delta_roundtrip", "address-delta codec for every address pair (delta relative to the node's first byte; 0 = empty final)",
                timeout=300, mem_gb=4, functions=["fst::raw::node::pack_delta", "fst::raw::node::unpack_delta"], bounds="all usize pairs"))
    for h in generated(index, "C09"):
        P.append(ob(h["harness"], h["desc"], timeout=1800, mem_gb=12, functions=["(independent reader only; the bytes come from the current builder)"],
                    artifact=h["artifact"], bounds="unwind %d" % h["unwind"], core=False))
    P.append(twin("c09_layout::c09_twin_must_fail", "vacuity twin: one-trans-next form reachable", timeout=1500, mem_gb=12))
    return P


def plan_c10(tier, seed, index):
    P = []
    P.append(ob("c10_open::c10_short_inputs", "inputs shorter than the smallest well-formed file of their version are Format errors carrying the length",
                timeout=900, mem_gb=8, functions=["fst::raw::Fst::new"], bounds="all byte strings < 36 bytes"))
    P.append(ob("c10_open::c10_version_gate", "every header version value with a full-length body: 0 and >3 are Version{expected:3,got}; 1..3 are not",
                timeout=900, mem_gb=8, functions=["fst::raw::Fst::new"], bounds="all u64 versions, lengths 36..40, arbitrary body"))
    P.append(ob("c10_open::c10_classify_40", "error classification of Fst::new on arbitrary bytes; verify()=ChecksumMissing for versions 1-2",
                timeout=2400, mem_gb=12, functions=["fst::raw::Fst::new", "fst::raw::Fst::verify"], bounds="all byte strings <= 40 bytes", core=False))
    for h in generated(index, "C10"):
        P.append(ob(h["harness"], h["desc"], timeout=2400 if h["weight"] == "heavy" else 1500,
                    mem_gb=16 if h["weight"] == "heavy" else 8, functions=READER + ["fst::raw::Fst::verify", "fst::raw::Fst::map_data"],
                    artifact=h["artifact"], bounds="unwind %d" % h["unwind"], core=(tier == "quick" or h["weight"] != "heavy")))
    return P


def plan_c11(tier, seed, index):
    P = []
    base = dict(timeout=1500, mem_gb=10)
    crc_us = [["crc32c_slice16", 0, 1], ["crc32c_slice16", 1, 10], ["write_all", 4]]
    P.append(ob("c11_fault::c11_encoder_t0", "node encoder over the faulty sink, symbolic transition-less final node",
                functions=NODE_ENC, bounds="T=0, every failing write call", timeout=1500, mem_gb=12, unwindset=[["write_all", 3]]))
    P.append(ob("c11_fault::c11_primitives", "u64/u32 writers and pack_uint_in over a sink failing at a symbolic call with a symbolic kind (Err(kind) or Ok(0)): Err iff the fault fired",
                functions=["fst::bytes::io_write_u64_le", "fst::bytes::io_write_u32_le", "fst::bytes::pack_uint_in"], bounds="every failing call index, 4 error kinds + zero-length write", **base))
    P.append(ob("c11_fault::c11_counting_writer", "CountingWriter passes failures through; count == accepted bytes after a fault; flush failure surfaces",
                functions=["fst::raw::counting_writer::CountingWriter::{write,flush}"], bounds="3-byte write_all, every failing call",
                unwindset=crc_us, **base))
    P.append(ob("c11_fault::c11_encoder_t1", "node encoder over the faulty sink, symbolic 1-transition node: Err iff the fault fired, no panic",
                functions=NODE_ENC, bounds="T=1, every failing write call", timeout=2400, mem_gb=16, unwindset=[["write_all", 3]]))
    if tier == "thorough":
        P.append(ob("c11_fault::c11_encoder_t2", "as above, 2 transitions", functions=NODE_ENC, bounds="T=2", timeout=2400, mem_gb=24, core=False,
                    unwindset=[["write_all", 3]]))
    P.append(ob("c11_fault::c11_builder_new", "Builder::new over the faulty sink: Err(Io) iff one of the two header writes failed",
                functions=["fst::raw::build::Builder::new_type", "fst::error::Error::from(io::Error)"], bounds="every failing call index, both kinds",
                timeout=900, mem_gb=12, covers_required=False, unwindset=[["crc32c_slice16", 0, 1], ["crc32c_slice16", 1, 10], ["write_all", 3]]))
    if tier == "thorough":
      P.append(ob("c11_fault::c11_builder_empty", "Builder::new + into_inner (empty FST) over the faulty sink incl. the final flush: Err(Io) iff a call failed; Ok only if all 39 bytes were accepted and flushed",
                functions=["fst::raw::build::Builder::{new_type,into_inner,compile}", "fst::error::Error::from(io::Error)"],
                bounds="every failing call index 0..8 (8 writes + flush), both kinds", timeout=2400, mem_gb=40, core=False,
                unwindset=[["crc32c_slice16", 0, 1], ["crc32c_slice16", 1, 10], ["write_all", 3]]))
    P.append(twin("c11_fault::c11_twin_must_fail", "vacuity twin: a fault can fire", timeout=600, mem_gb=8))
    return P


def plan_c12(tier, seed, index):
    P = []
    fns = ["fst::raw::registry::Registry::{new,entry,hash}", "fst::raw::registry::RegistryCache::{entry,promote}",
           "fst::raw::registry::RegistryCell::insert", "<BuilderNode as PartialEq>::eq", "BuilderNode::clone_from"]
    P.append(ob("c12_registry::c12_step_1x1_t1", "real Registry 1x1, one-transition nodes: two inserts + query; Found only for an equal node with its address; most recent insert is found",
                timeout=900, mem_gb=8, functions=fns, bounds="3 fully symbolic nodes (finality, final output, input, output, target), symbolic addresses"))
    P.append(ob("c12_registry::c12_step_1x1_t0", "as above with transition-less nodes", timeout=900, mem_gb=8, functions=fns, bounds="as above, T=0"))
    P.append(ob("c12_registry::c12_empty_table_rejects", "0x0 table: Rejected", timeout=600, mem_gb=4, functions=fns, bounds="any node"))
    P.append(ob("c12_registry::c12_step_1x2_t0", "real Registry 1x2 (shipped column count, MRU swap), transition-less nodes: nothing is evicted by two inserts, so every inserted node is found with its own address",
                timeout=2400, mem_gb=24, functions=fns, bounds="3 symbolic nodes, T=0", core=False))
    P.append(ob("c12_registry::c12_hits_1x2_t0", "real Registry 1x2: two distinct inserts, then three lookups each equal to one of them (symbolic choice): every one is a hit with its own address - a hit never displaces the other resident",
                timeout=1200, mem_gb=24, functions=fns, bounds="2 symbolic nodes T=0, symbolic lookup choice, 5 entry() calls"))
    if tier == "thorough":
        P.append(ob("c12_registry::c12_hits_1x3_t0", "as above, 3 columns (promote path)", timeout=2400, mem_gb=40, functions=fns, bounds="T=0, 1x3", core=False))
    hfns = fns + ["fst::raw::registry::Registry::hash (FNV-1a, % rows)"]
    P.append(ob("c12_registry::c12_hash_3x1_t0", "real Registry 3x1 (row chosen by the FNV hash): insert a, query an independently built node q (other allocation, other capacity): Found(addr of a) iff q equals a",
                timeout=900, mem_gb=12, functions=hfns, bounds="2 symbolic nodes T=0, 3 rows x 1 column (concrete geometry)"))
    if tier == "thorough":
        P.append(ob("c12_registry::c12_hash_3x1_t1", "as above with one-transition nodes (5 FNV rounds over symbolic 64-bit fields; ran out of memory under a 16 GB cap)",
                    timeout=2400, mem_gb=40, functions=hfns, bounds="2 symbolic nodes T=1, 3 rows x 1 column", core=False))
        P.append(ob("c12_registry::c12_hash_2x2_t1", "2 rows x 2 columns", timeout=2400, mem_gb=24, functions=hfns, bounds="2 symbolic nodes T=1, 2x2", core=False))
        P.append(ob("c12_registry::c12_step_1x2_t1", "1x2 with one-transition nodes", timeout=2400, mem_gb=40, functions=fns, bounds="T=1", core=False))
        P.append(ob("c12_registry::c12_step_1x3_t0", "1x3 (promote path)", timeout=2400, mem_gb=40, functions=fns, bounds="T=0", core=False))
    P.append(twin("c12_registry::c12_twin_must_fail", "vacuity twin: a hit is possible", timeout=600, mem_gb=8))
    return P


def plan_c16(tier, seed, index):
    P = []
    for h in generated(index, "C16"):
        P.append(ob(h["harness"], h["desc"], timeout=2400, mem_gb=20, unwindset=h["unwindset"],
                    functions=["fst::raw::FstRef::get_key_into", "fst::raw::Fst::get_key_into"] + NODE_DEC, artifact=h["artifact"],
                    bounds="every u64 query value; per-loop unwindset %s" % h["unwindset"], core=(h["artifact"] in ("mono4", "mono_empty0"))))
    return P


C18_D1 = ["starts_with_a", "union_ab", "intersection_ab", "complement_a"]
C18_D2 = ["compl_union", "compl_inter", "compl_compl", "compl_starts", "starts_compl", "union_starts", "inter_starts",
          "inter_compl", "union_compl", "starts_union", "starts_inter", "starts_starts"]
C18_D3 = ["d3_compl_inter_starts", "d3_starts_compl_union", "d3_union_compl_starts", "d3_inter_union_compl", "d3_compl_compl_compl"]
C18_LEAF = ["leaf_str_0", "leaf_str_2", "leaf_str_3", "leaf_subseq_0", "leaf_subseq_2", "leaf_subseq_3", "leaf_always",
            "str_starts_with", "subseq_inter_compl_str", "always_compl_union_dfa", "ref_forwarding"]


def plan_c18(tier, seed, index):
    P = []
    fns = ["fst::automaton::{Str,Subsequence,AlwaysMatch,StartsWith,Union,Intersection,Complement} as Automaton::{start,is_match,can_match,will_always_match,accept}"]
    shapes = list(C18_D1) + list(C18_D2)
    if tier == "thorough":
        shapes += C18_D3
    else:
        shapes += [C18_D3[seed % len(C18_D3)], C18_D3[(seed + 2) % len(C18_D3)]]
    for s in shapes:
        P.append(ob("c18_automata::c18_" + s, "combinator shape %s over symbolic component DFAs (<=3 states, 2 byte classes, every sound hint assignment): language == Boolean spec; can_match/will_always_match sound for every continuation" % s,
                    timeout=2400, mem_gb=10, functions=fns, bounds="prefix <= 4 bytes, continuation <= 3 bytes", core=not s.startswith("d3")))
    for s in C18_LEAF:
        P.append(ob("c18_automata::c18_" + s, "built-in %s against its specification (symbolic ASCII pattern), hints sound" % s,
                    timeout=1500, mem_gb=8, functions=fns, bounds="pattern length per name, strings <= 4+3 bytes", covers_required=False))
    P.append(twin("c18_automata::c18_twin_must_fail", "vacuity twin: a sound hint assignment with can_match false exists", timeout=900, mem_gb=8))
    return P


def plan_c20(tier, seed, index):
    P = []
    fns = ["fst::raw::Fst::{new,len,is_empty,fst_type,size,as_bytes,verify}", "fst::Map::new", "fst::Set::new"] + CRC_FNS
    P.append(ob("c10_open::c20_open_total_40", "Fst::new + accessors + verify on every byte string <= 40 bytes: no panic, overflow, out-of-bounds or invalid pointer (CBMC's own checks, all on)",
                timeout=2400, mem_gb=12, functions=fns, bounds="N=40, symbolic length", full_checks=True))
    P.append(ob("c10_open::c20_map_set_total_40", "the same through Map::new and Set::new", timeout=2400, mem_gb=12, functions=fns, bounds="N=40", full_checks=True,
                covers_required=False, core=False))
    if tier == "thorough":
        P.append(ob("c10_open::c20_open_total_48", "as above, N=48", timeout=2400, mem_gb=16, functions=fns, bounds="N=48", full_checks=True, core=False))
        P.append(ob("c10_open::c20_open_total_64", "as above, N=64", timeout=2400, mem_gb=24, functions=fns, bounds="N=64", full_checks=True, core=False))
    P.append(twin("c10_open::c20_twin_must_fail", "vacuity twin: some input opens", timeout=1500, mem_gb=12))
    return P


PLANS = {
    "C01": plan_c01, "C02": plan_c02, "C06": plan_c06, "C07": plan_c07, "C08": plan_c08, "C09": plan_c09,
    "C10": plan_c10, "C11": plan_c11, "C12": plan_c12, "C16": plan_c16, "C18": plan_c18, "C20": plan_c20,
}
