"""C17: Levenshtein automata, decided by an SMT solver over all of Unicode.

Per (query q, distance d) the generator builds the real `Levenshtein::new(q,d)`
with /repo's current tree and extracts its complete transition table through
the public Automaton API (every reachable state x all 256 bytes). This module
turns the table into SMT-LIB2 and asks z3 (cvc5 as a cross-check on a sample):

  Q1  exists a key k of <= n = |q|+d+1 Unicode scalars (21-bit symbolic,
      surrogates excluded, UTF-8 encoded symbolically) such that
      accepts(k) != (editdistance(q,k) <= d)                    expect unsat
  Q2  exists a key of exactly n scalars whose run does not end in the dead
      state                                                      expect unsat
      (dead is absorbing and non-matching - checked on the table - so every
      longer key is rejected, and its distance exceeds d)
  T   table facts, exhaustive over the finite table: can_match is false only
      in the dead state, from which no match is reachable.

unsat+unsat+T  ==>  for EVERY valid UTF-8 key of any length:
                    is_match(k) <=> editdistance(q,k) <= d, and can_match is sound.
A sat answer is a concrete key; it is replayed against the real automaton
(gen --lev-replay) before it is reported.
"""
import concurrent.futures as cf
import hashlib
import json
import os
import re
import subprocess
import time

from . import kani as K

VERIF = K.VERIF
Z3 = "/usr/bin/z3"
CVC5 = "/usr/bin/cvc5"
SW = 12  # state sort width


def bv(v, w):
    return "(_ bv%d %d)" % (v, w)


# ---------------------------------------------------------------------------
# Scalar-level transition function, computed exactly from the byte table.
#
# The byte-level DFA induces, for every state s, a function from Unicode
# scalars to states (run the UTF-8 encoding of the scalar from s). It is
# piecewise constant on a small number of scalar ranges; the ranges are
# computed by walking the table along the structure of UTF-8 (every lead and
# continuation byte, range-compressed; exhaustive, no sampling) and are then
# *validated by the solver* against the symbolic UTF-8 encoding (query V).
# ---------------------------------------------------------------------------

def _merge(rs):
    out = []
    for (lo, hi, t) in rs:
        if out and out[-1][2] == t and out[-1][1] + 1 == lo:
            out[-1] = (out[-1][0], hi, t)
        else:
            out.append((lo, hi, t))
    return out


def scalar_ranges(tab):
    ns = tab["nstates"]
    nxt = tab["next"]
    memo = {}

    def cont(s, rem, lo_b=0x80, hi_b=0xBF):
        """ranges over the remaining `rem` continuation bytes from state s (s=-1 dead):
        list of (lo, hi, target) over the rem*6 payload bits, restricted to first byte in [lo_b, hi_b]"""
        key = (s, rem, lo_b, hi_b)
        if key in memo:
            return memo[key]
        width = 6 * rem
        base_lo = (lo_b & 0x3F) << (width - 6)
        base_hi = (((hi_b & 0x3F) + 1) << (width - 6)) - 1
        if s < 0:
            r = [(base_lo, base_hi, -1)]
        elif rem == 1:
            r = _merge([(b & 0x3F, b & 0x3F, nxt[s][b]) for b in range(lo_b, hi_b + 1)])
        else:
            r = []
            for b in range(lo_b, hi_b + 1):
                sub = cont(nxt[s][b], rem - 1)
                off = (b & 0x3F) << (width - 6)
                r.extend((off + lo, off + hi, t) for (lo, hi, t) in sub)
            r = _merge(r)
        memo[key] = r
        return r

    table = []
    for s in range(ns):
        rs = [(b, b, nxt[s][b]) for b in range(0x00, 0x80)]
        for lead in range(0xC2, 0xE0):
            base = (lead & 0x1F) << 6
            rs.extend((base + lo, base + hi, t) for (lo, hi, t) in cont(nxt[s][lead], 1))
        for lead in range(0xE0, 0xF0):
            base = (lead & 0x0F) << 12
            lo_b, hi_b = 0x80, 0xBF
            if lead == 0xE0:
                lo_b = 0xA0
            if lead == 0xED:
                hi_b = 0x9F  # surrogates excluded
            rs.extend((base + lo, base + hi, t) for (lo, hi, t) in cont(nxt[s][lead], 2, lo_b, hi_b))
        for lead in range(0xF0, 0xF5):
            base = (lead & 0x07) << 18
            lo_b, hi_b = 0x80, 0xBF
            if lead == 0xF0:
                lo_b = 0x90
            if lead == 0xF4:
                hi_b = 0x8F
            rs.extend((base + lo, base + hi, t) for (lo, hi, t) in cont(nxt[s][lead], 3, lo_b, hi_b))
        # the surrogate gap D800..DFFF is not covered: merge only adjacent ranges
        rs.sort()
        table.append(_merge(rs))
    return table


def ranges_expr(rs, dead, var="c"):
    counts = {}
    for (lo, hi, t) in rs:
        counts[t] = counts.get(t, 0) + hi - lo + 1
    default = max(counts, key=lambda t: counts[t])
    e = bv(dead if default < 0 else default, SW)
    for (lo, hi, t) in reversed(rs):
        if t == default:
            continue
        c = "(= %s %s)" % (var, bv(lo, 21)) if lo == hi else "(and (bvuge %s %s) (bvule %s %s))" % (var, bv(lo, 21), var, bv(hi, 21))
        e = "(ite %s %s %s)" % (c, bv(dead if t < 0 else t, SW), e)
    return e


def row_expr(row, dead):
    """next-state of one byte-table row as an ite chain over byte ranges."""
    tg = [dead if x < 0 else x for x in row]
    rs = _merge([(b, b, tg[b]) for b in range(256)])
    counts = {}
    for (lo, hi, t) in rs:
        counts[t] = counts.get(t, 0) + hi - lo + 1
    default = max(counts, key=lambda t: counts[t])
    e = bv(default, SW)
    for (lo, hi, t) in reversed(rs):
        if t == default:
            continue
        c = "(= b %s)" % bv(lo, 8) if lo == hi else "(and (bvuge b %s) (bvule b %s))" % (bv(lo, 8), bv(hi, 8))
        e = "(ite %s %s %s)" % (c, bv(t, SW), e)
    return e


VALID = """(define-fun valid ((c (_ BitVec 21))) Bool
  (and (bvule c (_ bv1114111 21)) (or (bvult c (_ bv55296 21)) (bvugt c (_ bv57343 21)))))"""


def smt_validate_ranges(tab, sranges, states):
    """V: for each listed state s, no valid scalar whose byte-level run from s
    differs from the range table. One solver process, push/pop per state."""
    ns = tab["nstates"]
    dead = ns
    L = ["(set-logic QF_BV)"]
    e = bv(dead, SW)
    for s in range(ns - 1, -1, -1):
        e = "(ite (= s %s) %s %s)" % (bv(s, SW), row_expr(tab["next"][s], dead), e)
    L.append("(define-fun nxt ((s (_ BitVec %d)) (b (_ BitVec 8))) (_ BitVec %d) %s)" % (SW, SW, e))
    L.append("""(define-fun step ((s (_ BitVec %d)) (c (_ BitVec 21))) (_ BitVec %d)
  (let ((c6a ((_ extract 5 0) c)) (c6b ((_ extract 11 6) c)) (c6c ((_ extract 17 12) c)))
  (ite (bvult c (_ bv128 21))
       (nxt s ((_ extract 7 0) c))
  (ite (bvult c (_ bv2048 21))
       (nxt (nxt s (concat #b110 ((_ extract 10 6) c))) (concat #b10 c6a))
  (ite (bvult c (_ bv65536 21))
       (nxt (nxt (nxt s (concat #b1110 ((_ extract 15 12) c))) (concat #b10 c6b)) (concat #b10 c6a))
       (nxt (nxt (nxt (nxt s (concat #b11110 ((_ extract 20 18) c))) (concat #b10 c6c)) (concat #b10 c6b)) (concat #b10 c6a)))))))""" % (SW, SW))
    L.append(VALID)
    L.append("(declare-const c (_ BitVec 21))")
    L.append("(assert (valid c))")
    for s in states:
        L.append("(push 1)")
        L.append("(assert (not (= (step %s c) %s)))" % (bv(s, SW), ranges_expr(sranges[s], dead)))
        L.append("(check-sat)")
        L.append("(pop 1)")
    return "\n".join(L) + "\n"


def smt_prelude(tab, sranges):
    ns = tab["nstates"]
    dead = ns
    lines = ["(set-logic QF_BV)", "(set-option :produce-models true)"]
    e = bv(dead, SW)
    for s in range(ns - 1, -1, -1):
        e = "(ite (= s %s) %s %s)" % (bv(s, SW), ranges_expr(sranges[s], dead), e)
    lines.append("(define-fun step ((s (_ BitVec %d)) (c (_ BitVec 21))) (_ BitVec %d) %s)" % (SW, SW, e))
    ms = [s for s in range(ns) if tab["is_match"][s]]
    if not ms:
        me = "false"
    elif len(ms) == 1:
        me = "(= s %s)" % bv(ms[0], SW)
    else:
        me = "(or %s)" % " ".join("(= s %s)" % bv(s, SW) for s in ms)
    lines.append("(define-fun ismatch ((s (_ BitVec %d))) Bool %s)" % (SW, me))
    lines.append(VALID)
    return lines


def smt_query(tab, sranges, n, which):
    q = tab["q_scalars"]
    m = len(q)
    d = tab["d"]
    W = 6  # DP cell width: values <= n + m <= 12
    L = smt_prelude(tab, sranges)
    for i in range(1, n + 1):
        L.append("(declare-const c%d (_ BitVec 21))" % i)
        L.append("(assert (valid c%d))" % i)
    L.append("(declare-const len (_ BitVec 4))")
    L.append("(assert (bvule len %s))" % bv(n, 4))
    L.append("(declare-const s0 (_ BitVec %d))" % SW)
    L.append("(assert (= s0 %s))" % bv(0, SW))
    for i in range(1, n + 1):
        # declared + asserted (not define-fun): keeps the term DAG shallow
        L.append("(declare-const s%d (_ BitVec %d))" % (i, SW))
        L.append("(assert (= s%d (step s%d c%d)))" % (i, i - 1, i))
    e = "s%d" % n
    for i in range(n - 1, -1, -1):
        e = "(ite (= len %s) s%d %s)" % (bv(i, 4), i, e)
    L.append("(define-fun sfin () (_ BitVec %d) %s)" % (SW, e))
    if which == "Q2":
        L.append("(assert (= len %s))" % bv(n, 4))
        L.append("(assert (not (= sfin %s)))" % bv(tab["nstates"], SW))
    else:
        def mn(a, b):
            return "(ite (bvult %s %s) %s %s)" % (a, b, a, b)
        one = bv(1, W)
        for j in range(0, m + 1):
            L.append("(define-fun r0_%d () (_ BitVec %d) %s)" % (j, W, bv(j, W)))
        for i in range(1, n + 1):
            L.append("(define-fun r%d_0 () (_ BitVec %d) %s)" % (i, W, bv(i, W)))
            for j in range(1, m + 1):
                L.append("(declare-const r%d_%d (_ BitVec %d))" % (i, j, W))
                cost = "(ite (= c%d %s) %s %s)" % (i, bv(q[j - 1], 21), bv(0, W), one)
                a = "(bvadd r%d_%d %s)" % (i, j - 1, one)
                b = "(bvadd r%d_%d %s)" % (i - 1, j, one)
                c = "(bvadd r%d_%d %s)" % (i - 1, j - 1, cost)
                L.append("(assert (= r%d_%d %s))" % (i, j, mn(mn(a, b), c)))
        e = "r%d_%d" % (n, m)
        for i in range(n - 1, -1, -1):
            e = "(ite (= len %s) r%d_%d %s)" % (bv(i, 4), i, m, e)
        L.append("(define-fun dist () (_ BitVec %d) %s)" % (W, e))
        L.append("(define-fun within () Bool (bvule dist %s))" % bv(d, W))
        L.append("(assert (not (= (ismatch sfin) within)))")
    L.append("(check-sat)")
    L.append("(get-value (len %s))" % " ".join("c%d" % i for i in range(1, n + 1)))
    return "\n".join(L) + "\n"


def run_solver_multi(smt, timeout=300):
    """z3 -in over a push/pop script; returns the list of check-sat answers."""
    t0 = time.time()
    try:
        p = subprocess.run([Z3, "-in", "-T:%d" % timeout], input=smt, capture_output=True, text=True, timeout=timeout + 30)
    except subprocess.TimeoutExpired:
        return None, time.time() - t0
    if "(error" in p.stdout:
        return None, time.time() - t0
    return [l.strip() for l in p.stdout.split("\n") if l.strip() in ("sat", "unsat", "unknown", "timeout")], time.time() - t0


def run_solver(smt, solver="z3", timeout=300):
    cmd = [Z3, "-in", "-T:%d" % timeout] if solver == "z3" else [CVC5, "--lang", "smt2", "--produce-models", "--tlimit=%d" % (timeout * 1000)]
    t0 = time.time()
    try:
        p = subprocess.run(cmd, input=smt, capture_output=True, text=True, timeout=timeout + 30)
    except subprocess.TimeoutExpired:
        return "timeout", {}, time.time() - t0
    out = p.stdout
    errs = [l for l in (out + "\n" + p.stderr).split("\n") if "(error" in l and "model is not available" not in l and "Cannot get value" not in l]
    if errs:
        return "error", {"out": "\n".join(errs)[:500]}, time.time() - t0
    first = out.strip().split("\n")[0].strip() if out.strip() else ""
    model = {}
    if first == "sat":
        for m in re.finditer(r"\((len|c\d+)\s+(#x[0-9a-fA-F]+|#b[01]+|\(_ bv(\d+) \d+\))\)", out):
            name, val = m.group(1), m.group(2)
            if val.startswith("#x"):
                v = int(val[2:], 16)
            elif val.startswith("#b"):
                v = int(val[2:], 2)
            else:
                v = int(m.group(3))
            model[name] = v
    if first not in ("sat", "unsat"):
        return "unknown", {"out": out[:300]}, time.time() - t0
    return first, model, time.time() - t0


def table_facts(tab):
    """Exhaustive facts over the finite table (not solver-decided)."""
    ns = tab["nstates"]
    problems = []
    if tab["dead_can_match"]:
        pass  # can_match(dead) true is allowed (imprecise), never unsound
    if tab["dead_is_match"]:
        problems.append("the dead state matches")
    for s in range(ns):
        if not tab["can_match"][s]:
            # unsound iff a match state is reachable from s
            seen, st = {s}, [s]
            while st:
                x = st.pop()
                if tab["is_match"][x]:
                    problems.append("can_match false in state %d from which a match is reachable" % s)
                    break
                for y in set(tab["next"][x]):
                    if y >= 0 and y not in seen:
                        seen.add(y)
                        st.append(y)
    if not tab.get("limit_ok", True):
        problems.append("state-limit behaviour: new_with_limit(limit) is not Err(TooManyStates(limit)) below the smallest sufficient limit and the same automaton above it")
    return problems


def edit_distance(a, b):
    prev = list(range(len(a) + 1))
    for ch in b:
        cur = [prev[0] + 1]
        for j in range(1, len(a) + 1):
            cur.append(min(cur[j - 1] + 1, prev[j] + 1, prev[j - 1] + (0 if a[j - 1] == ch else 1)))
        prev = cur
    return prev[len(a)]


def table_accepts(tab, key_scalars):
    s = 0
    for c in key_scalars:
        for b in chr(c).encode("utf-8"):
            if s < 0:
                break
            s = tab["next"][s][b]
        if s < 0:
            return False
    return s >= 0 and bool(tab["is_match"][s])


def witness_class(tab, key):
    """Normalised role of a witness, used to key known findings."""
    q = tab["q_scalars"]
    def lead(c):
        return chr(c).encode("utf-8")[0]
    multi = [c for c in key if c >= 0x80]
    if any(c not in q and c >= 0x80 and any(qc >= 0x80 and lead(qc) == lead(c) for qc in q) for c in key):
        return "shared-lead-byte"
    qm = [c for c in q if c >= 0x80]
    if len({lead(c) for c in qm}) < len(set(qm)):
        return "query-chars-share-lead-byte"
    return "other"


def native_replay(q, d, key):
    """Ask the real automaton (current tree) about a concrete key."""
    env = K.base_env()
    cmd = [os.path.join(K.TARGET_ROOT, "gen", "debug", "fstgen"), "--lev-replay", q, str(d), "".join(chr(c) for c in key)]
    p = subprocess.run(cmd, capture_output=True, text=True, env=env)
    m = re.search(r"is_match=(true|false) distance=(\d+)", p.stdout)
    if not m:
        return None
    return (m.group(1) == "true", int(m.group(2)))


def decide_one(entry):
    with open(entry["file"]) as f:
        tab = json.load(f)
    n = len(tab["q_scalars"]) + tab["d"] + 1
    res = {"q": tab["q"], "d": tab["d"], "nstates": tab["nstates"], "n": n, "queries": [], "violations": [], "inconclusive": []}
    for p in table_facts(tab):
        res["violations"].append({"kind": "table", "what": p})
    sranges = scalar_ranges(tab)
    vstates = entry.get("validate_states")
    if vstates is None:
        vstates = list(range(tab["nstates"]))
    if vstates:
        answers, secs = run_solver_multi(smt_validate_ranges(tab, sranges, vstates), timeout=600)
        ok = answers is not None and len(answers) == len(vstates) and all(a == "unsat" for a in answers)
        res["queries"].append({"q": "V(%d states)" % len(vstates), "solver": "z3", "result": "unsat" if ok else "failed", "s": round(secs, 3)})
        if not ok:
            res["inconclusive"].append("V: scalar-range table not validated against the symbolic UTF-8 encoding (%s)" % (answers if answers is None else [a for a in answers if a != "unsat"][:3]))
    for which in ("Q1", "Q2"):
        smt = smt_query(tab, sranges, n, which)
        st, model, secs = run_solver(smt, "z3")
        res["queries"].append({"q": which, "solver": "z3", "result": st, "s": round(secs, 3)})
        if st == "unsat":
            continue
        if st != "sat":
            res["inconclusive"].append("%s: z3 %s" % (which, st))
            continue
        ln = model.get("len", n)
        key = [model.get("c%d" % i, 0) for i in range(1, ln + 1)]
        acc = table_accepts(tab, key)
        dist = edit_distance(tab["q_scalars"], key)
        res["violations"].append({"kind": which, "key": key, "key_str": "".join(chr(c) for c in key), "table_accepts": acc,
                                  "distance": dist, "class": witness_class(tab, key)})
    return res


def check_c17(tier, seed, known, run_gen, t0):
    prop = "C17"
    print("== C17 tier=%s seed=%d: building Levenshtein automata with /repo's current tree" % (tier, seed), flush=True)
    index, ginfo = run_gen(prop, tier, seed)
    import check as CHK
    if index is None:
        print("generator failed (log %s): inconclusive" % ginfo["log"])
        CHK.write_evidence(prop, tier, seed, t0, [], [], [], {"generator": ginfo}, inconclusive=["generator failed"])
        return 2
    entries = index.get("lev", [])
    print("== %d automata extracted; SMT queries V, Q1, Q2 each (z3 4.8.12)" % len(entries), flush=True)
    if tier == "quick":
        # range-table validation on every state of a seeded third of the automata, 8 seeded states elsewhere
        for i, e in enumerate(entries):
            if (i + seed) % 3 != 0:
                e["validate_states"] = sorted({(seed * 31 + k * 17) % e["nstates"] for k in range(8)})
    results = []
    with cf.ThreadPoolExecutor(int(os.environ.get("VERIF_JOBS", "14"))) as ex:
        for r in ex.map(decide_one, entries):
            results.append(r)
    # cvc5 cross-check on a seeded sample (encoding sanity)
    cross = []
    sample = [entries[(seed * 7 + i * 13) % len(entries)] for i in range(min(4 if tier == "quick" else 24, len(entries)))] if entries else []
    for e in sample:
        with open(e["file"]) as f:
            tab = json.load(f)
        n = len(tab["q_scalars"]) + tab["d"] + 1
        if tab["nstates"] > 400:
            continue
        st_c, _, secs = run_solver(smt_query(tab, scalar_ranges(tab), n, "Q1"), "cvc5", timeout=120)
        st_z = next((x["result"] for r in results if r["q"] == tab["q"] and r["d"] == tab["d"] for x in r["queries"] if x["q"] == "Q1"), None)
        cross.append({"q": tab["q"], "d": tab["d"], "z3": st_z, "cvc5": st_c, "s": round(secs, 2)})
    violations, inconclusive, known_hits = [], [], []
    for nf in index.get("native_failures", []):
        if prop in nf["properties"]:
            from . import replay as RP
            violations.append({"what": "%s: %s" % (nf["artifact"], nf["what"]), "replay": RP.save_native(prop, nf)})
    for c in cross:
        if c["cvc5"] in ("sat", "unsat") and c["z3"] in ("sat", "unsat") and c["cvc5"] != c["z3"]:
            inconclusive.append("z3 and cvc5 disagree on q=%r d=%d" % (c["q"], c["d"]))
    for r in results:
        for i in r["inconclusive"]:
            inconclusive.append("q=%r d=%d %s" % (r["q"], r["d"], i))
        for v in r["violations"]:
            if v["kind"] == "table":
                violations.append({"what": "q=%r d=%d: %s" % (r["q"], r["d"], v["what"]), "replay": save_lev(prop, r, v)})
                continue
            # known finding? keyed by witness class
            kf = next((k for k in known.get("findings", []) if k["property"] == prop and k.get("witness_class") == v["class"]), None)
            nat = native_replay(r["q"], r["d"], v["key"])
            if nat is None:
                inconclusive.append("q=%r d=%d: native replay of %r failed to run" % (r["q"], r["d"], v["key_str"]))
                continue
            is_match, dist = nat
            reproduced = (is_match != (dist <= r["d"])) if v["kind"] == "Q1" else True
            if v["kind"] == "Q2":
                # a live state after |q|+d+1 scalars is a violation only if some extension is accepted; report as such
                reproduced = is_match
                if not reproduced:
                    inconclusive.append("q=%r d=%d: run of %d scalars does not end in the dead state (key %r); no accepted extension exhibited" % (r["q"], r["d"], r["n"], v["key_str"]))
                    continue
            if not reproduced:
                inconclusive.append("q=%r d=%d: solver witness %r does not reproduce on the real automaton (encoding suspect)" % (r["q"], r["d"], v["key_str"]))
                continue
            if kf is not None:
                known_hits.append(kf)
                continue
            violations.append({"what": "Levenshtein(q=%r,d=%d) on key %r (U+%s): is_match=%s but edit distance=%d"
                                       % (r["q"], r["d"], v["key_str"], " U+".join("%04X" % c for c in v["key"]), is_match, dist),
                               "replay": save_lev(prop, r, v)})
    seen = set()
    for k in known_hits:
        if k["id"] not in seen:
            seen.add(k["id"])
            print("KNOWN-FINDING: property=%s %s" % (prop, k["what"]))
    nq = sum(len(r["queries"]) for r in results)
    unsat = sum(1 for r in results for x in r["queries"] if x["result"] == "unsat")
    ev = {
        "property_id": prop, "tier": tier, "seed": seed, "level": "other",
        "coverage": {
            "explanation": "Per (q,d): the real Levenshtein::new(q,d) of the current tree is extracted exhaustively through the public Automaton API "
                           "(every reachable state x 256 bytes); z3 decides over ALL valid UTF-8 keys (symbolic 21-bit scalars, surrogates excluded, "
                           "symbolic UTF-8 encoding): no key of <= |q|+d+1 scalars with is_match != (edit distance <= d) [Q1], and every run of |q|+d+1 scalars "
                           "ends in the absorbing dead state [Q2] - together: exactness for keys of every length. The (q,d) quantifier is enumeration "
                           "(construction inside the model checker does not finish); the key quantifier is the solver's. State-limit behaviour is enumerated natively.",
            "evaluations": max(1, nq),
            "distinct_nontrivial": sum(1 for r in results if r["nstates"] > 1),
            "rule": "one evaluation = one SMT query on one extracted automaton; non-trivial = automaton with more than one state",
            "samples": [{"q": r["q"], "d": r["d"], "states": r["nstates"], "key_scalars_bound": r["n"], "queries": r["queries"],
                         "violations": r["violations"][:2]} for r in results[:300]],
            "automata": len(results), "queries": nq, "unsat": unsat,
            "solver_time_s": round(sum(x["s"] for r in results for x in r["queries"]), 2),
            "cvc5_crosscheck": cross,
            "functions_encoded": ["fst::automaton::Levenshtein::{new,new_with_limit} (run natively)", "<Levenshtein as Automaton>::{start,accept,is_match,can_match} (extracted table)"],
            "bounds": "q: <=3 scalars over {a, e-acute, e-circumflex, snowman, comet, 2 emoji, G-clef}; d in 0..2; keys: every valid UTF-8 string (any length, by Q1+Q2+absorbing dead state)",
            "inconclusive": inconclusive, "known_findings_matched": sorted(seen),
            "trusted_base": ["z3 4.8.12 (cvc5 1.0 on a sample)", "table extraction in /verif/gen/src/lev.rs", "SMT encoding in /verif/vlib/lev.py (sat answers are replayed natively)"],
            "exhaustive": tier == "thorough",
        },
        "assumptions": [
            "The automaton is a function of the extracted table: Automaton::accept/is_match are pure table lookups (read in levenshtein.rs; the extraction goes through those same public methods).",
            "Searching a set/map with the automaton returns exactly the accepted keys only if C04 holds (not applicable here); this check covers the automaton itself.",
        ],
        "wall_s": round(time.time() - t0, 2),
        "violations": len(violations),
    }
    if violations:
        ev["coverage"]["violation_details"] = violations[:200]
    os.makedirs(CHK.EVIDENCE_DIR, exist_ok=True)
    with open(os.path.join(CHK.EVIDENCE_DIR, "C17.json"), "w") as f:
        json.dump(ev, f, indent=1, ensure_ascii=False)
    for v in violations[:12]:
        print("VIOLATION property=%s replay=%s" % (prop, v["replay"]))
        print("  " + v["what"])
    if len(violations) > 12:
        print("(%d more violations; see the evidence file)" % (len(violations) - 12))
    if violations:
        return 1
    if inconclusive:
        print("INCONCLUSIVE:")
        for i in inconclusive[:20]:
            print("  " + i)
        return 2
    print("OK C17: %d automata, %d queries unsat, %.0fs" % (len(results), unsat, time.time() - t0))
    return 0


def save_lev(prop, r, v):
    d = os.path.join(VERIF, "replay", prop)
    os.makedirs(d, exist_ok=True)
    doc = {"property": prop, "kind": "lev", "q": r["q"], "d": r["d"], "violation": v,
           "how": "cd /verif && ./check.py C17 --replay <this file>"}
    h = hashlib.sha1(json.dumps(doc, sort_keys=True).encode()).hexdigest()[:10]
    path = os.path.join(d, "lev_%s.json" % h)
    with open(path, "w") as f:
        json.dump(doc, f, indent=1, ensure_ascii=False)
    return path


def replay(prop, doc, path):
    import check as CHK
    CHK.run_gen("NONE", "quick", 0)  # make sure the generator binary is built from the current tree
    v = doc["violation"]
    if v.get("kind") == "table":
        print("table fact; re-run the check")
        return 2
    nat = native_replay(doc["q"], doc["d"], v["key"])
    if nat is None:
        print("native replay failed to run")
        return 2
    is_match, dist = nat
    print("Levenshtein(%r,%d) key=%r: is_match=%s distance=%d" % (doc["q"], doc["d"], v.get("key_str"), is_match, dist))
    if is_match != (dist <= doc["d"]):
        print("VIOLATION property=%s replay=%s" % (prop, path))
        return 1
    return 0
