"""Counterexample replay against a native build of /repo.

A solver counterexample is reported as a violation only if it reproduces:
the same harness, compiled as ordinary Rust (replay_shim: `kani::any()` reads
the solver's values, `kani::assume` aborts as not-reproduced), must panic when
run against the real code, in the dev profile Kani models and in release."""
import hashlib
import json
import os
import re
import subprocess
import time

from . import kani as K

VERIF = K.VERIF
REPLAY_DIR = os.path.join(VERIF, "replay")


def _extract_values(text):
    """Flatten Kani's concrete_vals (vec![..] per nondet) into one byte stream."""
    m = re.search(r"let concrete_vals: Vec<Vec<u8>> = vec!\[(.*?)\n\s*\];", text, re.S)
    if not m:
        return b""
    out = bytearray()
    for v in re.finditer(r"vec!\[([0-9,\s]*)\]", m.group(1)):
        for x in v.group(1).split(","):
            x = x.strip()
            if x:
                out.append(int(x))
    return bytes(out)


def run_native(harness, values_hex, release=False, timeout=900):
    env = dict(os.environ)
    env["CARGO_NET_OFFLINE"] = "true"
    env["RUSTFLAGS"] = "--cfg kani " + K.GUARD
    env["KANI_REPLAY_VALUES"] = values_hex
    env["RUST_BACKTRACE"] = "0"
    cmd = ["cargo", "test", "--offline", "--features", "replay", "--target-dir", os.path.join(K.TARGET_ROOT, "replay")]
    if release:
        cmd.append("--release")
    cmd += ["--lib", "--", "--exact", harness, "--nocapture", "--test-threads", "1"]
    try:
        p = subprocess.run(cmd, cwd=K.HARNESS_DIR, env=env, capture_output=True, text=True, timeout=timeout)
    except subprocess.TimeoutExpired:
        return {"reproduced": False, "why": "native replay timed out", "output": ""}
    out = p.stdout + p.stderr
    if "REPLAY-ASSUME-VIOLATED" in out:
        return {"reproduced": False, "why": "replayed values violate a harness assumption", "output": out[-2000:]}
    if re.search(r"running 0 tests", out) and "1 failed" not in out and "1 passed" not in out:
        return {"reproduced": False, "why": "harness not found in native build", "output": out[-2000:]}
    if re.search(r"test result: FAILED\. 0 passed; 1 failed", out):
        pm = re.search(r"panicked at ([^\n]*)\n([^\n]*)", out)
        return {"reproduced": True, "why": "", "panic": (pm.group(1) + " " + pm.group(2)) if pm else "", "output": out[-2000:]}
    if re.search(r"test result: ok\. 1 passed", out):
        return {"reproduced": False, "why": "native run passes with the solver's values", "output": out[-1000:]}
    return {"reproduced": False, "why": "native build/run failed (rc=%s)" % p.returncode, "output": out[-3000:]}


def replay_counterexample(prop, ob, res):
    """Re-run the failing harness with concrete playback, then natively."""
    os.makedirs(os.path.join(REPLAY_DIR, prop), exist_ok=True)
    pb = K.run_obligation(ob, 15, playback=True)
    with open(pb["log"], "rb") as f:
        text = f.read().decode("utf-8", "replace")
    vals = _extract_values(text)
    hexv = vals.hex()
    dev = run_native(ob.harness, hexv, release=False)
    rel = run_native(ob.harness, hexv, release=True) if dev["reproduced"] else {"reproduced": False, "why": "skipped"}
    h = hashlib.sha1((ob.harness + hexv).encode()).hexdigest()[:10]
    path = os.path.join(REPLAY_DIR, prop, "%s_%s.json" % (ob.harness.replace("::", "__"), h))
    doc = {
        "property": prop, "kind": "kani", "harness": ob.harness, "values_hex": hexv,
        "seed": int(os.environ.get("VERIF_SEED", "0") or 0), "tier": os.environ.get("VERIF_TIER_EFFECTIVE", "quick"),
        "failed_checks": res.get("failed", []), "what": ob.desc,
        "native_dev": {k: dev.get(k) for k in ("reproduced", "why", "panic")},
        "native_release": {k: rel.get(k) for k in ("reproduced", "why", "panic")},
        "how": "cd /verif && ./check.py %s --replay %s" % (prop, path),
    }
    with open(path, "w") as f:
        json.dump(doc, f, indent=1)
    return {"reproduced": bool(dev["reproduced"]), "path": path, "why": dev.get("why", ""), "release": rel.get("reproduced")}


def save_native(prop, nf):
    os.makedirs(os.path.join(REPLAY_DIR, prop), exist_ok=True)
    h = hashlib.sha1(json.dumps(nf, sort_keys=True).encode()).hexdigest()[:10]
    path = os.path.join(REPLAY_DIR, prop, "native_%s_%s.json" % (nf["artifact"], h))
    doc = {"property": prop, "kind": "native", "artifact": nf["artifact"], "what": nf["what"],
           "how": "cd /verif && ./check.py %s --replay %s  (rebuilds the artifact with /repo's current tree and repeats the concrete cross-check)" % (prop, path)}
    with open(path, "w") as f:
        json.dump(doc, f, indent=1)
    return path


def replay(prop, path):
    """`check.py <prop> --replay <path>`: exit 1 + VIOLATION line if it still reproduces, else 0."""
    with open(path) as f:
        doc = json.load(f)
    kind = doc.get("kind")
    if "seed" in doc:
        os.environ["VERIF_SEED"] = str(doc["seed"])
        os.environ["VERIF_TIER"] = doc.get("tier", "quick")
    if kind == "kani":
        # generated harnesses need the generated module to exist
        _ensure_generated(prop)
        dev = run_native(doc["harness"], doc["values_hex"], release=False)
        print("native replay (dev): reproduced=%s %s %s" % (dev["reproduced"], dev.get("why", ""), dev.get("panic", "")))
        if dev["reproduced"]:
            rel = run_native(doc["harness"], doc["values_hex"], release=True)
            print("native replay (release): reproduced=%s %s" % (rel["reproduced"], rel.get("why", "")))
            print("VIOLATION property=%s replay=%s" % (prop, path))
            return 1
        return 0
    if kind == "native":
        idx = _ensure_generated(prop)
        for nf in (idx or {}).get("native_failures", []):
            if nf["artifact"] == doc["artifact"] and nf["what"] == doc["what"]:
                print("native cross-check still fails: %s %s" % (nf["artifact"], nf["what"]))
                print("VIOLATION property=%s replay=%s" % (prop, path))
                return 1
        print("native cross-check passes on the current tree")
        return 0
    if kind == "lev":
        from . import lev
        return lev.replay(prop, doc, path)
    print("unknown replay kind %r" % kind)
    return 2


def _ensure_generated(prop):
    import importlib
    chk = importlib.import_module("check")
    seed = int(os.environ.get("VERIF_SEED", "0") or 0)
    idx, _ = chk.run_gen(prop, os.environ.get("VERIF_TIER", "quick"), seed)
    return idx
