"""Counterexample replay against a native build of /repo.

A solver counterexample is reported as a violation only if it reproduces:
the same harness, compiled as ordinary Rust (replay_shim: `kani::any()` reads
the solver's values, `kani::assume` aborts as not-reproduced), must panic when
run against the real code, in the dev profile Kani models and in release."""
import hashlib
import json
import os
import re
import subprocess
import time

from . import kani as K

VERIF = K.VERIF
REPLAY_DIR = os.path.join(VERIF, "replay")


def _extract_entries(text, failed_descriptions):
    """Kani's concrete-playback tests -> the nondet entries of the test that
    belongs to a failed assertion (not to a cover). Entries keep their sizes:
    the sliced trace omits don't-care values, so positions are unknown."""
    tests = re.findall(r"/// Check for `(\w+)`: \"(.*?)\"\s*\n\s*#\[test\]\s*fn (\w+)\(\) \{(.*?)\n\}", text, re.S)
    best = None
    for kind, desc, name, body in tests:
        if kind == "cover":
            continue
        score = 1 + (2 if any(d.strip('"') in desc or desc.strip('"') in d for d in failed_descriptions) else 0)
        m = re.search(r"let concrete_vals: Vec<Vec<u8>> = vec!\[(.*?)\n\s*\];", body, re.S)
        entries = []
        if m:
            for v in re.finditer(r"vec!\[([0-9,\s]*)\]", m.group(1)):
                bs = bytes(int(x) for x in v.group(1).split(",") if x.strip())
                entries.append(bs)
        if best is None or score > best[0]:
            best = (score, entries, desc)
    return (best[1], best[2]) if best else ([], None)


def run_native(harness, values_hex, release=False, timeout=900, entries=None):
    env = dict(os.environ)
    env["CARGO_NET_OFFLINE"] = "true"
    env["RUSTFLAGS"] = "--cfg kani " + K.GUARD
    env.pop("KANI_REPLAY_ENTRIES", None)
    env.pop("KANI_REPLAY_VALUES", None)
    if entries is not None:
        env["KANI_REPLAY_ENTRIES"] = ";".join("%d:%s" % (len(e), e.hex()) for e in entries) + ";"
    else:
        env["KANI_REPLAY_VALUES"] = values_hex
    env["RUST_BACKTRACE"] = "0"
    cmd = ["cargo", "test", "--offline", "--features", "replay", "--target-dir", os.path.join(K.TARGET_ROOT, "replay")]
    if release:
        cmd.append("--release")
    cmd += ["--lib", "--", "--exact", harness, "--nocapture", "--test-threads", "1"]
    try:
        p = subprocess.run(cmd, cwd=K.HARNESS_DIR, env=env, capture_output=True, text=True, timeout=timeout)
    except subprocess.TimeoutExpired:
        return {"reproduced": False, "why": "native replay timed out", "output": ""}
    out = p.stdout + p.stderr
    if "REPLAY-ASSUME-VIOLATED" in out:
        return {"reproduced": False, "why": "replayed values violate a harness assumption", "output": out[-2000:]}
    if re.search(r"running 0 tests", out) and "1 failed" not in out and "1 passed" not in out:
        return {"reproduced": False, "why": "harness not found in native build", "output": out[-2000:]}
    if "REPLAY-NOT-REPRODUCED" in out:
        return {"reproduced": False, "why": "no alignment of the solver's values makes the native harness fail", "output": out[-1500:]}
    if re.search(r"test result: FAILED\. 0 passed; 1 failed", out):
        pm = re.search(r"panicked at ([^\n]*)\n([^\n]*)", out)
        sm = re.search(r"REPLAY-STREAM ([0-9a-f]*)", out)
        return {"reproduced": True, "why": "", "panic": (pm.group(1) + " " + pm.group(2)) if pm else "",
                "stream": sm.group(1) if sm else None, "output": out[-2000:]}
    if re.search(r"test result: ok\. 1 passed", out):
        return {"reproduced": False, "why": "native run passes with the solver's values", "output": out[-1000:]}
    return {"reproduced": False, "why": "native build/run failed (rc=%s)" % p.returncode, "output": out[-3000:]}


def replay_counterexample(prop, ob, res):
    """Re-run the failing harness with concrete playback, then natively."""
    os.makedirs(os.path.join(REPLAY_DIR, prop), exist_ok=True)
    # the playback run keeps the full trace: give it more memory and time
    import copy
    ob2 = copy.copy(ob)
    ob2.mem_gb = min(44, max(24, 2 * ob.mem_gb))
    ob2.timeout = max(1800, 2 * ob.timeout)
    failed_desc = [f["description"] for f in res.get("failed", [])]
    entries, dev, attempts = [], {"reproduced": False, "why": "no playback values"}, []
    # attempt 1: Kani's own playback (complete trace => exact positions); small harnesses only
    if (res.get("wall_s") or 0) < 45:
        ob2.extra = list(ob.extra)
        ob2.timeout = 600
        pb = K.run_obligation(ob2, 15, playback=True)
        with open(pb["log"], "rb") as f:
            text = f.read().decode("utf-8", "replace")
        entries, which = _extract_entries(text, failed_desc)
        attempts.append("full-trace playback: %d values" % len(entries))
        if entries:
            dev = run_native(ob.harness, b"".join(entries).hex(), release=False)
            if dev["reproduced"]:
                dev["stream"] = b"".join(entries).hex()
    if not dev["reproduced"]:
        # attempt 2: --slice-formula keeps the playback run as small as the deciding run (Kani drops
        # it for playback; without it large harnesses need 10x the memory). The sliced trace omits
        # don't-care values, so the native driver searches the alignment of the remaining ones.
        ob2.extra = list(ob.extra) + ["--cbmc-args", "--slice-formula"]
        ob2.timeout = max(1800, 2 * ob.timeout)
        pb = K.run_obligation(ob2, 15, playback=True)
        with open(pb["log"], "rb") as f:
            text = f.read().decode("utf-8", "replace")
        entries2, which = _extract_entries(text, failed_desc)
        attempts.append("sliced playback: %d values" % len(entries2))
        if entries2 or not entries:
            entries = entries2
            dev = run_native(ob.harness, "", release=False, entries=entries)
    hexv = dev.get("stream") or ""
    rel = run_native(ob.harness, hexv, release=True) if dev["reproduced"] else {"reproduced": False, "why": "skipped"}
    h = hashlib.sha1((ob.harness + hexv).encode()).hexdigest()[:10]
    path = os.path.join(REPLAY_DIR, prop, "%s_%s.json" % (ob.harness.replace("::", "__"), h))
    doc = {
        "property": prop, "kind": "kani", "harness": ob.harness, "values_hex": hexv,
        "solver_entries": [e.hex() for e in entries], "replay_attempts": attempts,
        "seed": int(os.environ.get("VERIF_SEED", "0") or 0), "tier": os.environ.get("VERIF_TIER_EFFECTIVE", "quick"),
        "failed_checks": res.get("failed", []), "what": ob.desc,
        "native_dev": {k: dev.get(k) for k in ("reproduced", "why", "panic")},
        "native_release": {k: rel.get(k) for k in ("reproduced", "why", "panic")},
        "how": "cd /verif && ./check.py %s --replay %s" % (prop, path),
    }
    with open(path, "w") as f:
        json.dump(doc, f, indent=1)
    return {"reproduced": bool(dev["reproduced"]), "path": path, "why": dev.get("why", ""), "release": rel.get("reproduced")}


def save_native(prop, nf):
    os.makedirs(os.path.join(REPLAY_DIR, prop), exist_ok=True)
    h = hashlib.sha1(json.dumps(nf, sort_keys=True).encode()).hexdigest()[:10]
    path = os.path.join(REPLAY_DIR, prop, "native_%s_%s.json" % (nf["artifact"], h))
    doc = {"property": prop, "kind": "native", "artifact": nf["artifact"], "what": nf["what"],
           "how": "cd /verif && ./check.py %s --replay %s  (rebuilds the artifact with /repo's current tree and repeats the concrete cross-check)" % (prop, path)}
    with open(path, "w") as f:
        json.dump(doc, f, indent=1)
    return path


def replay(prop, path):
    """`check.py <prop> --replay <path>`: exit 1 + VIOLATION line if it still reproduces, else 0."""
    with open(path) as f:
        doc = json.load(f)
    kind = doc.get("kind")
    if "seed" in doc:
        os.environ["VERIF_SEED"] = str(doc["seed"])
        os.environ["VERIF_TIER"] = doc.get("tier", "quick")
    if kind == "kani":
        # generated harnesses need the generated module to exist
        _ensure_generated(prop)
        dev = run_native(doc["harness"], doc["values_hex"], release=False)
        print("native replay (dev): reproduced=%s %s %s" % (dev["reproduced"], dev.get("why", ""), dev.get("panic", "")))
        if dev["reproduced"]:
            rel = run_native(doc["harness"], doc["values_hex"], release=True)
            print("native replay (release): reproduced=%s %s" % (rel["reproduced"], rel.get("why", "")))
            print("VIOLATION property=%s replay=%s" % (prop, path))
            return 1
        return 0
    if kind == "native":
        idx = _ensure_generated(prop)
        for nf in (idx or {}).get("native_failures", []):
            if nf["artifact"] == doc["artifact"] and nf["what"] == doc["what"]:
                print("native cross-check still fails: %s %s" % (nf["artifact"], nf["what"]))
                print("VIOLATION property=%s replay=%s" % (prop, path))
                return 1
        print("native cross-check passes on the current tree")
        return 0
    if kind == "lev":
        from . import lev
        return lev.replay(prop, doc, path)
    print("unknown replay kind %r" % kind)
    return 2


def _ensure_generated(prop):
    import importlib
    chk = importlib.import_module("check")
    seed = int(os.environ.get("VERIF_SEED", "0") or 0)
    idx, _ = chk.run_gen(prop, os.environ.get("VERIF_TIER", "quick"), seed)
    return idx
