//! Native replay shim for Kani harnesses. The harness runs as ordinary Rust
//! against a native build of /repo, so a failing assertion is a real panic of
//! the real code, and *any* input that satisfies the harness's assumptions
//! and makes it panic is a genuine counterexample.
//!
//! KANI_REPLAY_VALUES=<hex>   exact replay: `kani::any()` reads this flat
//!                            little-endian byte stream (zeros once exhausted)
//! KANI_REPLAY_ENTRIES=<n:hex;n:hex;...>
//!                            the solver's relevant nondet values in order
//!                            (Kani's sliced trace omits don't-care values, so
//!                            positions are unknown): the driver searches the
//!                            alignments (consume the next entry / serve a
//!                            zero), in-process, until the harness panics
//! The stream that made the harness panic is printed as REPLAY-STREAM <hex>.
pub use kani_macros::{proof, solver, stub, unwind};

use std::cell::RefCell;
use std::panic::{self, AssertUnwindSafe};

struct AssumeViolated;

#[derive(Default)]
struct State {
    flat: Vec<u8>,
    flat_pos: usize,
    entries: Vec<Vec<u8>>,
    next_entry: usize,
    use_entries: bool,
    /// decisions for eligible requests: true = consume the entry, false = serve zeros
    decisions: Vec<bool>,
    decision_pos: usize,
    served: Vec<u8>,
}

thread_local! {
    static ST: RefCell<State> = RefCell::new(State::default());
}

fn unhex(s: &str) -> Vec<u8> {
    let h: Vec<u8> = s.bytes().filter(|c| c.is_ascii_hexdigit()).collect();
    let mut out = vec![];
    let mut i = 0;
    while i + 1 < h.len() {
        out.push(u8::from_str_radix(std::str::from_utf8(&h[i..i + 2]).unwrap(), 16).unwrap());
        i += 2;
    }
    out
}

fn next_bytes(n: usize) -> Vec<u8> {
    ST.with(|s| {
        let mut s = s.borrow_mut();
        let mut out = vec![0u8; n];
        if s.use_entries {
            let eligible = s.next_entry < s.entries.len() && s.entries[s.next_entry].len() == n;
            if eligible {
                let take = if s.decision_pos < s.decisions.len() {
                    s.decisions[s.decision_pos]
                } else {
                    s.decisions.push(true);
                    true
                };
                s.decision_pos += 1;
                if take {
                    out = s.entries[s.next_entry].clone();
                    s.next_entry += 1;
                }
            }
        } else {
            for k in 0..n {
                if s.flat_pos < s.flat.len() {
                    out[k] = s.flat[s.flat_pos];
                    s.flat_pos += 1;
                }
            }
        }
        s.served.extend_from_slice(&out);
        out
    })
}

/// Runs the harness body; see the module documentation.
pub fn replay_driver<F: Fn()>(f: F) {
    let entries_env = std::env::var("KANI_REPLAY_ENTRIES").ok();
    let quiet = std::env::var("KANI_REPLAY_VERBOSE").is_err();
    if let Some(es) = entries_env {
        let entries: Vec<Vec<u8>> = es
            .split(';')
            .filter(|e| !e.is_empty())
            .map(|e| unhex(e.split(':').last().unwrap_or("")))
            .collect();
        let prev = panic::take_hook();
        if quiet {
            panic::set_hook(Box::new(|_| {}));
        }
        let mut decisions: Vec<bool> = vec![];
        let mut runs = 0usize;
        let mut found: Option<(Vec<u8>, String)> = None;
        loop {
            runs += 1;
            ST.with(|s| {
                let mut s = s.borrow_mut();
                *s = State::default();
                s.entries = entries.clone();
                s.use_entries = true;
                s.decisions = decisions.clone();
            });
            let r = panic::catch_unwind(AssertUnwindSafe(|| f()));
            let (dec, served) = ST.with(|s| {
                let s = s.borrow();
                (s.decisions.clone(), s.served.clone())
            });
            match r {
                Err(e) if !e.is::<AssumeViolated>() => {
                    let msg = if let Some(m) = e.downcast_ref::<&str>() {
                        m.to_string()
                    } else if let Some(m) = e.downcast_ref::<String>() {
                        m.clone()
                    } else {
                        String::from("panic")
                    };
                    found = Some((served, msg));
                    break;
                }
                _ => {}
            }
            // backtrack: flip the last `true` decision to `false`, drop what follows
            let mut d = dec;
            while let Some(last) = d.pop() {
                if last {
                    d.push(false);
                    break;
                }
            }
            if d.is_empty() || runs >= 20000 {
                break;
            }
            decisions = d;
        }
        panic::set_hook(prev);
        match found {
            Some((served, msg)) => {
                let hex: String = served.iter().map(|b| format!("{:02x}", b)).collect();
                println!("REPLAY-STREAM {}", hex);
                println!("REPLAY-RUNS {}", runs);
                panic!("harness panicked natively: {}", msg);
            }
            None => {
                println!("REPLAY-NOT-REPRODUCED after {} alignment(s)", runs);
            }
        }
        return;
    }
    // exact mode
    let flat = unhex(&std::env::var("KANI_REPLAY_VALUES").unwrap_or_default());
    ST.with(|s| {
        let mut s = s.borrow_mut();
        *s = State::default();
        s.flat = flat;
    });
    let r = panic::catch_unwind(AssertUnwindSafe(|| f()));
    match r {
        Ok(()) => {}
        Err(e) if e.is::<AssumeViolated>() => println!("REPLAY-ASSUME-VIOLATED"),
        Err(e) => panic::resume_unwind(e),
    }
}

pub trait Arbitrary: Sized {
    fn any() -> Self;
}

macro_rules! prim {
    ($($t:ty),*) => {$(
        impl Arbitrary for $t {
            fn any() -> Self {
                let b = next_bytes(std::mem::size_of::<$t>());
                let mut a = [0u8; std::mem::size_of::<$t>()];
                a.copy_from_slice(&b);
                <$t>::from_le_bytes(a)
            }
        }
    )*};
}
prim!(u8, u16, u32, u64, u128, usize, i8, i16, i32, i64, isize);

impl Arbitrary for bool {
    fn any() -> Self {
        next_bytes(1)[0] & 1 == 1
    }
}

impl<T: Arbitrary, const N: usize> Arbitrary for [T; N] {
    fn any() -> Self {
        [(); N].map(|_| T::any())
    }
}

pub fn any<T: Arbitrary>() -> T {
    T::any()
}

pub fn assume(cond: bool) {
    if !cond {
        panic::panic_any(AssumeViolated);
    }
}

#[macro_export]
macro_rules! cover {
    ($($t:tt)*) => {};
}
