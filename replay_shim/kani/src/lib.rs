//! Native replay shim for Kani harnesses: `kani::any()` reads the solver's
//! counterexample values (a flat little-endian byte stream in the environment
//! variable KANI_REPLAY_VALUES, hex; zeros once exhausted), `kani::assume`
//! aborts the replay as *not reproduced* when the assumption does not hold,
//! `kani::cover!` is a no-op. The harness then runs as ordinary Rust against
//! a native build of /repo, so a failing assertion is a real panic.
pub use kani_macros::{proof, solver, stub, unwind};

use std::cell::RefCell;

thread_local! {
    static STREAM: RefCell<Option<(Vec<u8>, usize)>> = RefCell::new(None);
}

fn next_bytes(n: usize) -> Vec<u8> {
    STREAM.with(|s| {
        let mut s = s.borrow_mut();
        if s.is_none() {
            let hex = std::env::var("KANI_REPLAY_VALUES").unwrap_or_default();
            let hex: Vec<u8> = hex.bytes().filter(|c| c.is_ascii_hexdigit()).collect();
            let mut bytes = vec![];
            let mut i = 0;
            while i + 1 < hex.len() {
                let h = std::str::from_utf8(&hex[i..i + 2]).unwrap();
                bytes.push(u8::from_str_radix(h, 16).unwrap());
                i += 2;
            }
            *s = Some((bytes, 0));
        }
        let (bytes, pos) = s.as_mut().unwrap();
        let mut out = vec![0u8; n];
        for k in 0..n {
            if *pos < bytes.len() {
                out[k] = bytes[*pos];
                *pos += 1;
            }
        }
        out
    })
}

pub trait Arbitrary: Sized {
    fn any() -> Self;
}

macro_rules! prim {
    ($($t:ty),*) => {$(
        impl Arbitrary for $t {
            fn any() -> Self {
                let b = next_bytes(std::mem::size_of::<$t>());
                let mut a = [0u8; std::mem::size_of::<$t>()];
                a.copy_from_slice(&b);
                <$t>::from_le_bytes(a)
            }
        }
    )*};
}
prim!(u8, u16, u32, u64, u128, usize, i8, i16, i32, i64, isize);

impl Arbitrary for bool {
    fn any() -> Self {
        next_bytes(1)[0] & 1 == 1
    }
}

impl<T: Arbitrary, const N: usize> Arbitrary for [T; N] {
    fn any() -> Self {
        [(); N].map(|_| T::any())
    }
}

pub fn any<T: Arbitrary>() -> T {
    T::any()
}

pub fn assume(cond: bool) {
    if !cond {
        // not a reproduction: the replayed values leave the harness's domain
        println!("REPLAY-ASSUME-VIOLATED");
        std::process::exit(77);
    }
}

#[macro_export]
macro_rules! cover {
    ($($t:tt)*) => {};
}
