//! Native replay shim: the Kani attributes as plain pass-throughs.
//! `#[kani::proof]` turns the harness into an ordinary `#[test]`.
extern crate proc_macro;
use proc_macro::TokenStream;

#[proc_macro_attribute]
pub fn proof(_attr: TokenStream, item: TokenStream) -> TokenStream {
    let mut out: TokenStream = "#[test]".parse().unwrap();
    out.extend(item);
    out
}

#[proc_macro_attribute]
pub fn unwind(_attr: TokenStream, item: TokenStream) -> TokenStream {
    item
}

#[proc_macro_attribute]
pub fn solver(_attr: TokenStream, item: TokenStream) -> TokenStream {
    item
}

#[proc_macro_attribute]
pub fn stub(_attr: TokenStream, item: TokenStream) -> TokenStream {
    item
}
