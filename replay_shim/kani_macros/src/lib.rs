//! Native replay shim: the Kani attributes as plain pass-throughs.
//! `#[kani::proof]` turns the harness into an ordinary `#[test]` whose body
//! runs under `kani::replay_driver`.
extern crate proc_macro;
use proc_macro::{Delimiter, Group, TokenStream, TokenTree};

#[proc_macro_attribute]
pub fn proof(_attr: TokenStream, item: TokenStream) -> TokenStream {
    let mut toks: Vec<TokenTree> = item.into_iter().collect();
    // the function body is the last brace group
    let body = match toks.pop() {
        Some(TokenTree::Group(g)) if g.delimiter() == Delimiter::Brace => g,
        other => panic!("kani::proof shim: expected a function body, found {:?}", other),
    };
    let mut inner: TokenStream = "kani::replay_driver".parse().unwrap();
    let mut closure: TokenStream = "||".parse().unwrap();
    closure.extend(std::iter::once(TokenTree::Group(Group::new(Delimiter::Brace, body.stream()))));
    inner.extend(std::iter::once(TokenTree::Group(Group::new(Delimiter::Parenthesis, closure))));
    let mut out: TokenStream = "#[test]".parse().unwrap();
    out.extend(toks);
    out.extend(std::iter::once(TokenTree::Group(Group::new(Delimiter::Brace, inner))));
    out
}

#[proc_macro_attribute]
pub fn unwind(_attr: TokenStream, item: TokenStream) -> TokenStream {
    item
}

#[proc_macro_attribute]
pub fn solver(_attr: TokenStream, item: TokenStream) -> TokenStream {
    item
}

#[proc_macro_attribute]
pub fn stub(_attr: TokenStream, item: TokenStream) -> TokenStream {
    item
}
