//! Extraction of Levenshtein automata through the public Automaton API.
use std::collections::HashMap;
use std::fmt::Write as _;
use std::fs;

use fst::automaton::{Automaton, Levenshtein, LevenshteinError};

use crate::emit::{jstr, Index};
use crate::family::Rng;

pub const ALPHABET: [char; 8] = ['a', 'é', 'ê', '☃', '☄', '😀', '😁', '𝄞'];

pub struct Table {
    pub is_match: Vec<bool>,
    pub can_match: Vec<bool>,
    pub next: Vec<[i32; 256]>,
    pub dead_can_match: bool,
    pub dead_is_match: bool,
}

pub fn extract(lev: &Levenshtein) -> Table {
    let mut ids: HashMap<usize, usize> = HashMap::new();
    let mut order: Vec<usize> = vec![];
    let start = lev.start();
    let s0 = start.expect("start state is live");
    ids.insert(s0, 0);
    order.push(s0);
    let mut next: Vec<[i32; 256]> = vec![];
    let mut i = 0;
    while i < order.len() {
        let st = Some(order[i]);
        let mut row = [-1i32; 256];
        for b in 0..256usize {
            match lev.accept(&st, b as u8) {
                None => {}
                Some(t) => {
                    let id = *ids.entry(t).or_insert_with(|| { order.push(t); order.len() - 1 });
                    row[b] = id as i32;
                }
            }
        }
        next.push(row);
        i += 1;
    }
    Table {
        is_match: order.iter().map(|&s| lev.is_match(&Some(s))).collect(),
        can_match: order.iter().map(|&s| lev.can_match(&Some(s))).collect(),
        next,
        dead_can_match: lev.can_match(&None),
        dead_is_match: lev.is_match(&None),
    }
}

fn all_queries(max_len: usize) -> Vec<String> {
    let mut out = vec![String::new()];
    let mut frontier = vec![String::new()];
    for _ in 0..max_len {
        let mut nf = vec![];
        for p in &frontier {
            for c in ALPHABET.iter() {
                let mut q = p.clone();
                q.push(*c);
                nf.push(q);
            }
        }
        out.extend(nf.iter().cloned());
        frontier = nf;
    }
    out
}

pub fn extract_all(dir: &str, seed: u64, tier: &str, index: &mut Index) {
    let _ = fs::remove_dir_all(dir);
    fs::create_dir_all(dir).unwrap();
    let mut rng = Rng(seed ^ 0x1e7);
    let qs = all_queries(3);
    let fixed = ["", "a", "é", "☃", "😀", "aé", "éê", "☃☄", "a😀", "éa", "😀😁", "aéa", "é☃😀", "𝄞a"];
    let mut n = 0;
    for q in &qs {
        for d in 0u32..3 {
            let chosen = tier == "thorough"
                || fixed.iter().any(|f| f == q) && (d <= 1 || q.chars().count() <= 2)
                || rng.below(100) < 4;
            if !chosen { continue; }
            let lev = match Levenshtein::new(q, d) {
                Ok(l) => l,
                Err(LevenshteinError::TooManyStates(k)) => {
                    index.fail(&["C17"], &format!("lev({:?},{})", q, d), &format!("TooManyStates({}) under the default limit", k));
                    continue;
                }
            };
            let t = extract(&lev);
            // state-limit behaviour (native enumeration of concrete runs)
            let mut lstar = None;
            let mut limit_ok = true;
            let mut lim = 0usize;
            while lim < 4000 {
                match Levenshtein::new_with_limit(q, d, lim) {
                    Ok(l2) => {
                        let t2 = extract(&l2);
                        if t2.next.len() > lim + 0 && lim < t2.next.len() {
                            // more reachable states than the limit allows
                            limit_ok = false;
                        }
                        if t2.next != t.next || t2.is_match != t.is_match { limit_ok = false; }
                        if lstar.is_none() { lstar = Some(lim); }
                        if lim >= lstar.unwrap() + 2 { break; }
                    }
                    Err(LevenshteinError::TooManyStates(k)) => {
                        if k != lim || lstar.is_some() { limit_ok = false; }
                    }
                }
                lim += 1;
            }
            let mut s = String::new();
            let _ = write!(s, "{{\"q\": {}, \"q_scalars\": [{}], \"d\": {}, \"nstates\": {}, \"lstar\": {}, \"limit_ok\": {}, \"dead_can_match\": {}, \"dead_is_match\": {},\n\"is_match\": [{}],\n\"can_match\": [{}],\n\"next\": [",
                jstr(q), q.chars().map(|c| (c as u32).to_string()).collect::<Vec<_>>().join(","), d, t.next.len(),
                lstar.map(|x| x as i64).unwrap_or(-1), limit_ok, t.dead_can_match, t.dead_is_match,
                t.is_match.iter().map(|b| if *b { "1" } else { "0" }).collect::<Vec<_>>().join(","),
                t.can_match.iter().map(|b| if *b { "1" } else { "0" }).collect::<Vec<_>>().join(","));
            for (i, row) in t.next.iter().enumerate() {
                if i > 0 { s.push(','); }
                let _ = write!(s, "[{}]", row.iter().map(|x| x.to_string()).collect::<Vec<_>>().join(","));
            }
            s.push_str("]}\n");
            let fname = format!("{}/lev_{:04}.json", dir, n);
            fs::write(&fname, s).unwrap();
            index.lev.push(format!("{{\"file\": {}, \"q\": {}, \"d\": {}, \"nstates\": {}}}", jstr(&fname), jstr(q), d, t.next.len()));
            n += 1;
        }
    }
}

/// Concrete replay of a solver witness on the real automaton.
pub fn replay(q: &str, d: u32, key: &str) {
    let lev = match Levenshtein::new(q, d) {
        Ok(l) => l,
        Err(e) => { println!("construction failed: {:?}", e); return; }
    };
    let mut st = lev.start();
    for b in key.bytes() {
        st = lev.accept(&st, b);
    }
    let a: Vec<char> = q.chars().collect();
    let mut prev: Vec<usize> = (0..=a.len()).collect();
    for ch in key.chars() {
        let mut cur = vec![prev[0] + 1];
        for j in 1..=a.len() {
            let c = if a[j - 1] == ch { 0 } else { 1 };
            cur.push((cur[j - 1] + 1).min(prev[j] + 1).min(prev[j - 1] + c));
        }
        prev = cur;
    }
    println!("is_match={} distance={}", lev.is_match(&st), prev[a.len()]);
}
