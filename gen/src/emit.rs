use std::fmt::Write as _;

use fst::raw::{Builder, Fst};
use fst::{MapBuilder, SetBuilder};

use crate::family::{is_monotone, Art, Rng};
use crate::refdec::{decode_file as decode_file_raw, Decoded};

/// The independent reader indexes by the documented layout; on bytes that do
/// not follow it, it may run out of bounds: that is a decoding failure.
fn decode_file(bs: &[u8]) -> Result<Decoded, String> {
    let owned = bs.to_vec();
    match std::panic::catch_unwind(move || decode_file_raw(&owned)) {
        Ok(r) => r,
        Err(_) => Err("bytes do not parse under the documented layout (out-of-bounds while decoding)".to_string()),
    }
}
use crate::refenc;

#[derive(Default)]
pub struct Index {
    pub artifacts: Vec<String>,      // json objects
    pub harnesses: Vec<String>,      // json objects
    pub native_failures: Vec<String>, // json objects
    pub lev: Vec<String>,
    pub native_checks: usize,
}

pub fn jstr(s: &str) -> String {
    let mut o = String::from("\"");
    for c in s.chars() {
        match c {
            '"' => o.push_str("\\\""),
            '\\' => o.push_str("\\\\"),
            '\n' => o.push_str("\\n"),
            c if (c as u32) < 0x20 => { let _ = write!(o, "\\u{:04x}", c as u32); }
            c => o.push(c),
        }
    }
    o.push('"');
    o
}

impl Index {
    pub fn to_json(&self) -> String {
        format!(
            "{{\n\"artifacts\": [\n{}\n],\n\"harnesses\": [\n{}\n],\n\"native_failures\": [\n{}\n],\n\"lev\": [\n{}\n],\n\"native_checks\": {}\n}}\n",
            self.artifacts.join(",\n"),
            self.harnesses.join(",\n"),
            self.native_failures.join(",\n"),
            self.lev.join(",\n"),
            self.native_checks
        )
    }
    pub fn fail(&mut self, props: &[&str], art: &str, what: &str) {
        let ps: Vec<String> = props.iter().map(|p| jstr(p)).collect();
        self.native_failures.push(format!(
            "{{\"properties\": [{}], \"artifact\": {}, \"what\": {}}}",
            ps.join(","), jstr(art), jstr(what)
        ));
    }
}

pub struct Built {
    pub art: Art,
    pub bytes: Vec<u8>,
    pub v1: Vec<u8>,
    pub v2: Vec<u8>,
    pub depth: usize,
    pub max_fanout: usize,
    pub monotone: bool,
}

pub const FRONT_ENDS: [&str; 6] = ["raw::Builder::insert/add", "MapBuilder/SetBuilder::insert", "raw::Builder::extend_iter", "Map::from_iter/Set::from_iter", "MapBuilder::extend_stream of a built map", "raw::Fst::from_iter_map/from_iter_set"];

fn build_real(a: &Art, front: usize) -> Result<Vec<u8>, String> {
    // three front ends; all must agree (C15 is not claimed, but a disagreement
    // is reported as a native failure of C01's artifact construction)
    let e = |x: fst::Error| format!("{:?}", x);
    match front {
        0 => {
            let mut b = Builder::new_type(Vec::new(), 0).map_err(e)?;
            for (k, v) in &a.kvs {
                // a set builder accepts a repeated key as a no-op
                if a.is_map { b.insert(k, *v).map_err(e)?; } else { b.add(k).map_err(e)?; b.add(k).map_err(e)?; }
            }
            b.into_inner().map_err(e)
        }
        2 => {
            let mut b = Builder::new_type(Vec::new(), 0).map_err(e)?;
            if a.is_map {
                b.extend_iter(a.kvs.iter().map(|(k, v)| (k.clone(), fst::raw::Output::new(*v)))).map_err(e)?;
            } else {
                for (k, _) in &a.kvs { b.add(k).map_err(e)?; }
            }
            b.into_inner().map_err(e)
        }
        3 => {
            if a.is_map {
                fst::Map::from_iter(a.kvs.iter().map(|(k, v)| (k.clone(), *v))).map(|m| m.as_fst().as_bytes().to_vec()).map_err(e)
            } else {
                fst::Set::from_iter(a.kvs.iter().map(|(k, _)| k.clone())).map(|m| m.as_fst().as_bytes().to_vec()).map_err(e)
            }
        }
        4 => {
            let first = build_real(a, 1)?;
            if a.is_map {
                let m = fst::Map::new(first).map_err(e)?;
                let mut b = MapBuilder::new(Vec::new()).map_err(e)?;
                b.extend_stream(m.stream()).map_err(e)?;
                b.into_inner().map_err(e)
            } else {
                let m = fst::Set::new(first).map_err(e)?;
                let mut b = SetBuilder::new(Vec::new()).map_err(e)?;
                b.extend_stream(m.stream()).map_err(e)?;
                b.into_inner().map_err(e)
            }
        }
        5 => {
            if a.is_map {
                Fst::from_iter_map(a.kvs.iter().map(|(k, v)| (k.clone(), *v))).map(|f| f.as_bytes().to_vec()).map_err(e)
            } else {
                Fst::from_iter_set(a.kvs.iter().map(|(k, _)| k.clone())).map(|f| f.as_bytes().to_vec()).map_err(e)
            }
        }
        _ => {
            if a.is_map {
                let mut b = MapBuilder::new(Vec::new()).map_err(e)?;
                for (k, v) in &a.kvs { b.insert(k, *v).map_err(e)?; }
                b.into_inner().map_err(e)
            } else {
                let mut b = SetBuilder::new(Vec::new()).map_err(e)?;
                for (k, _) in &a.kvs { b.insert(k).map_err(e)?; }
                b.into_inner().map_err(e)
            }
        }
    }
}

pub fn build_and_crosscheck(fam: &[Art], index: &mut Index) -> Vec<Built> {
    let mut out = vec![];
    for (ai, a) in fam.iter().enumerate() {
        // the bytes embedded in the harnesses come from a front end that rotates over the family
        let front = if a.name == "zero_after_prefix" { 2 } else { ai % FRONT_ENDS.len() };
        let built = std::panic::catch_unwind(|| build_real(a, front));
        let bytes = match built {
            Ok(Ok(b)) => b,
            Ok(Err(e)) => { index.fail(&["C01"], &a.name, &format!("builder rejected a sorted input: {}", e)); continue; }
            Err(_) => { index.fail(&["C01"], &a.name, "builder panicked on a sorted input"); continue; }
        };
        index.native_checks += 1;
        for other in 0..FRONT_ENDS.len() {
            if other == front { continue; }
            match std::panic::catch_unwind(|| build_real(a, other)) {
                Ok(Ok(b2)) if b2 == bytes => {}
                Ok(Ok(_)) => index.fail(&["C01"], &a.name, &format!("bytes built through [{}] differ from those built through [{}]", FRONT_ENDS[other], FRONT_ENDS[front])),
                Ok(Err(e)) => index.fail(&["C01"], &a.name, &format!("front end [{}] rejected a sorted input: {}", FRONT_ENDS[other], e)),
                Err(_) => index.fail(&["C01"], &a.name, &format!("front end [{}] panicked", FRONT_ENDS[other])),
            }
        }
        // independent decode: format conformance + exact content
        let (mut depth, mut max_fanout) = (0, 0);
        match decode_file(&bytes) {
            Ok(d) => {
                depth = d.depth;
                max_fanout = d.max_fanout;
                if d.kvs != a.kvs {
                    index.fail(&["C09", "C01"], &a.name, "independent decoder reads a different map than was inserted");
                }
                if d.version != 3 || d.ty != 0 {
                    index.fail(&["C09"], &a.name, "header version/type");
                }
            }
            Err(e) => index.fail(&["C09", "C08"], &a.name, &format!("independent decoder: {}", e)),
        }
        // reference encoder: minimal node count and byte equality
        let r3 = refenc::encode(3, 0, &a.kvs);
        match (decode_file(&bytes), decode_file(&r3.bytes)) {
            (Ok(d), Ok(dr)) => {
                if d.nodes > dr.nodes {
                    index.fail(&["C12"], &a.name, &format!("{} nodes emitted, minimal is {}", d.nodes, dr.nodes));
                }
            }
            (_, Err(e)) => index.fail(&["GEN"], &a.name, &format!("reference encoder output does not decode: {}", e)),
            _ => {}
        }
        if r3.bytes != bytes {
            index.fail(&["C09"], &a.name, "bytes differ from the reference encoder's canonical version-3 encoding");
        }
        // real reader on real bytes, natively (sanity; the solver does the symbolic probes)
        let b2 = bytes.clone();
        let kv2 = a.kvs.clone();
        let native = std::panic::catch_unwind(move || -> Vec<(&'static str, String)> {
            let mut fails = vec![];
            match Fst::new(&b2[..]) {
                Ok(f) => {
                    if f.verify().is_err() { fails.push(("C08", "built FST does not verify".to_string())); }
                    if f.len() != kv2.len() { fails.push(("C01", "len()".to_string())); }
                    let got = f.stream().into_byte_vec();
                    if got != kv2 { fails.push(("C01", "stream() differs from the inserted entries".to_string())); }
                }
                Err(e) => fails.push(("C01", format!("built FST does not open: {:?}", e))),
            }
            fails
        });
        match native {
            Ok(fails) => for (p, w) in fails { index.fail(&[p], &a.name, &w); },
            Err(_) => index.fail(&["C01"], &a.name, "the crate's reader panicked on bytes the builder just produced"),
        }
        let v1 = refenc::encode(1, 0, &a.kvs).bytes;
        let v2 = refenc::encode(2, 0, &a.kvs).bytes;
        let monotone = a.is_map && is_monotone(&a.kvs);
        index.artifacts.push(format!(
            "{{\"name\": {}, \"front_end\": {}, \"is_map\": {}, \"nkeys\": {}, \"nbytes\": {}, \"depth\": {}, \"max_fanout\": {}, \"monotone\": {}, \"group\": {}, \"v1_bytes\": {}, \"v2_bytes\": {}}}",
            jstr(&a.name), jstr(FRONT_ENDS[front]), a.is_map, a.kvs.len(), bytes.len(), depth, max_fanout, monotone, jstr(a.group), v1.len(), v2.len()
        ));
        out.push(Built { art: a.clone(), bytes, v1, v2, depth, max_fanout, monotone });
    }
    out
}

fn bytes_lit(bs: &[u8]) -> String {
    let mut s = String::from("[");
    for (i, b) in bs.iter().enumerate() {
        if i > 0 { s.push(','); }
        let _ = write!(s, "{}", b);
    }
    s.push(']');
    s
}

fn model_fn(name: &str, l: usize, kvs: &[(Vec<u8>, u64)]) -> String {
    let mut s = String::new();
    let _ = writeln!(s, "#[allow(unused_variables)]\nfn model_{}_l{}(p: &[u8; {}]) -> Option<u64> {{", name, l, l);
    for (k, v) in kvs.iter().filter(|(k, _)| k.len() == l) {
        let cond: Vec<String> = k.iter().enumerate().map(|(i, b)| format!("p[{}] == {}", i, b)).collect();
        let cond = if cond.is_empty() { "true".to_string() } else { cond.join(" && ") };
        let _ = writeln!(s, "    if {} {{ return Some({}u64); }}", cond, v);
    }
    let _ = writeln!(s, "    None\n}}");
    s
}

fn pick(built: &[Built], group: &str, n: usize, rng: &mut Rng, pred: &dyn Fn(&Built) -> bool) -> Vec<usize> {
    let idx: Vec<usize> = built.iter().enumerate().filter(|(_, b)| b.art.group == group && pred(b)).map(|(i, _)| i).collect();
    if idx.len() <= n { return idx; }
    let mut chosen = vec![];
    while chosen.len() < n {
        let c = idx[rng.below(idx.len() as u64) as usize];
        if !chosen.contains(&c) { chosen.push(c); }
    }
    chosen
}

fn harness_entry(index: &mut Index, prop: &str, name: &str, art: &str, unwind: usize, desc: &str, rules: &str, weight: &str) {
    index.harnesses.push(format!(
        "{{\"property\": {}, \"harness\": {}, \"artifact\": {}, \"unwind\": {}, \"desc\": {}, \"unwindset\": {}, \"weight\": {}}}",
        jstr(prop), jstr(&format!("generated::{}", name)), jstr(art), unwind, jstr(desc), rules, jstr(weight)
    ));
}

pub fn emit_rust(built: &[Built], seed: u64, tier: &str, want: &dyn Fn(&str) -> bool, index: &mut Index) -> String {
    let thorough = tier == "thorough";
    let mut rng = Rng(seed.wrapping_mul(0x1234_5677).wrapping_add(99));
    let mut s = String::new();
    s.push_str("// @generated by /verif/gen from the current /repo tree. Do not edit.\n");
    s.push_str("#![allow(non_upper_case_globals, unused_imports, dead_code, unused_mut)]\n");
    s.push_str("use fst::raw::Fst;\nuse std::borrow::Cow;\n\n");
    let by_name = |n: &str| built.iter().position(|b| b.art.name == n);

    // ---- selection -------------------------------------------------------
    let mut c02: Vec<usize> = vec![];
    let mut c16: Vec<usize> = vec![];
    let mut c10: Vec<usize> = vec![];
    let always_c02 = ["months", "only_empty_key_map", "empty", "uncommon_bytes", "uncommon_chain", "zero_after_prefix", "fan33_set", "fan256_map", "rootfinal40", "kfinal33"];
    let thorough_c02 = ["fan33_deep", "months_set", "chain", "boundary", "fan31_map", "fan32_map", "fan33_map", "fan34_set", "fan255_map",
                        "fan256_map", "fan256_deep", "fan32_deep", "only_empty_key_set", "mono_deep"];
    for n in always_c02.iter() { if let Some(i) = by_name(n) { c02.push(i); } }
    c02.extend(pick(built, "ab", if thorough { 24 } else { 3 }, &mut rng, &|b| b.art.kvs.len() >= 3));
    c02.extend(pick(built, "rnd", if thorough { 12 } else { 2 }, &mut rng, &|_| true));
    if thorough { for n in thorough_c02.iter() { if let Some(i) = by_name(n) { c02.push(i); } } }
    for n in ["mono4", "mono_empty0"].iter() { if let Some(i) = by_name(n) { c16.push(i); } }
    if thorough {
        for n in ["mono_from0", "mono_deep", "only_empty_key_map"].iter() { if let Some(i) = by_name(n) { c16.push(i); } }
        c16.extend(pick(built, "abmono", 10, &mut rng, &|b| b.monotone && b.art.kvs.len() >= 2));
    } else {
        c16.extend(pick(built, "abmono", 1, &mut rng, &|b| b.monotone && b.art.kvs.len() >= 3 && b.art.kvs.len() <= 4));
    }
    // the 35-byte v2 file {"a"} = abset_002 (mask bit 1 = "a")
    for n in ["abset_002", "months", "fan33_set", "only_empty_key_set", "only_empty_key_map", "empty"].iter() { if let Some(i) = by_name(n) { c10.push(i); } }
    c10.extend(pick(built, "ab", if thorough { 12 } else { 2 }, &mut rng, &|b| b.art.kvs.len() >= 2));
    if thorough { for n in ["rootfinal40", "kfinal33", "fan33_deep", "fan256_map", "fan34_set", "uncommon_bytes", "chain"].iter() { if let Some(i) = by_name(n) { c10.push(i); } } }
    fn uniq(v: &mut Vec<usize>) { let mut seen = vec![]; v.retain(|x| if seen.contains(x) { false } else { seen.push(*x); true }); }
    uniq(&mut c02); uniq(&mut c16); uniq(&mut c10);

    let mut emitted_static: Vec<String> = vec![];
    let mut emit_static = |s: &mut String, name: &str, bytes: &[u8]| {
        if emitted_static.iter().any(|n| n == name) { return; }
        emitted_static.push(name.to_string());
        let _ = writeln!(s, "pub static {}: [u8; {}] = {};", name, bytes.len(), bytes_lit(bytes));
    };
    let mut emitted_models: Vec<String> = vec![];

    // ---- C02: point lookups on the current builder's bytes ----------------
    if want("C02") || want("C01") {
        for &i in &c02 {
            let b = &built[i];
            let name = &b.art.name;
            let sname = format!("F_{}", name.to_uppercase());
            emit_static(&mut s, &sname, &b.bytes);
            let mut maxl = if thorough { 4 } else { 3 }.min(b.depth + 1);
            if b.art.group == "fan" && !thorough { maxl = 1; }
            if b.art.group == "wide" { maxl = b.depth; }
            if b.art.name == "uncommon_chain" { maxl = 4; }
            let scan = if b.max_fanout > 32 { 32 } else { b.max_fanout };
            for l in 0..=maxl {
                if b.art.name == "uncommon_chain" && (l == 1 || l == 2) { continue; }
                if b.art.group == "fan" && l == 0 && !thorough { continue; }
                if b.art.name == "kfinal33" && l == 0 { continue; }
                let mname = format!("{}_l{}", name, l);
                if !emitted_models.contains(&mname) { emitted_models.push(mname); s.push_str(&model_fn(name, l, &b.art.kvs)); }
                let unwind = scan.max(8).max(l) + 2;
                let nk = b.art.kvs.iter().filter(|(k, _)| k.len() == l).count();
                let cover_some = if nk > 0 { "kani::cover!(want.is_some(), \"probe is an inserted key\");" } else { "" };
                let cover_none = if l > 0 && (l > 1 || nk < 256) { "kani::cover!(want.is_none(), \"probe is not a key\");" } else { "" };
                let api = if (l + i) % 2 == 0 || !thorough { "raw" } else if b.art.is_map { "map" } else { "set" };
                let hname = format!("c02_{}_{}_l{}", api, name, l);
                let body = match api {
                    "raw" => format!(
"    match Fst::new(&{sn}[..]) {{
        Ok(f) => {{
            let got = f.get(&p[..]).map(|o| o.value());
            assert!(got == want);
            assert!(f.contains_key(&p[..]) == want.is_some());
            assert!(f.len() == {nk});
            assert!(f.is_empty() == ({nk} == 0));
            {cs}
            {cn}
        }}
        Err(e) => {{ core::mem::forget(e); assert!(false, \"built FST does not open\"); }}
    }}", sn = sname, nk = b.art.kvs.len(), cs = cover_some, cn = cover_none),
                    "map" => format!(
"    match fst::Map::new(&{sn}[..]) {{
        Ok(m) => {{
            assert!(m.get(&p[..]) == want);
            assert!(m.contains_key(&p[..]) == want.is_some());
            assert!(m.len() == {nk});
            {cs}
            {cn}
        }}
        Err(e) => {{ core::mem::forget(e); assert!(false, \"built FST does not open\"); }}
    }}", sn = sname, nk = b.art.kvs.len(), cs = cover_some, cn = cover_none),
                    _ => format!(
"    match fst::Set::new(&{sn}[..]) {{
        Ok(m) => {{
            assert!(m.contains(&p[..]) == want.is_some());
            assert!(m.len() == {nk});
            {cs}
            {cn}
        }}
        Err(e) => {{ core::mem::forget(e); assert!(false, \"built FST does not open\"); }}
    }}", sn = sname, nk = b.art.kvs.len(), cs = cover_some, cn = cover_none),
                };
                // the empty probe is a zero-length slice of a real object (a slice of a zero-sized array has a dangling pointer the model checker cannot compare)
                let pdecl = if l == 0 { format!("let backing = [0u8; 1];\n    let p: &[u8] = &backing[..0];\n    let want = model_{}_l0(&[]);", name) } else { format!("let p: [u8; {}] = kani::any();\n    let want = model_{}_l{}(&p);", l, name, l) };
                let _ = writeln!(s, "#[kani::proof]\n#[kani::unwind({})]\nfn {}() {{\n    {}\n{}\n}}\n",
                                 unwind, hname, pdecl, body);
                harness_entry(index, "C02", &hname, name, unwind,
                              &format!("{} API on the current builder's bytes for {} ({} keys, {} bytes): every probe of length {}", api, name, b.art.kvs.len(), b.bytes.len(), l),
                              "[]", if b.bytes.len() > 200 || b.art.group == "fan" || b.art.group == "wide" { "heavy" } else { "light" });
            }
        }
    }

    // ---- C09: the current builder's bytes read by the independent reader ---
    if want("C09") {
        let mut c09: Vec<usize> = vec![];
        for n in ["fan32_map", "fan33_map", "months", "uncommon_chain", "zero_after_prefix", "rootfinal40", "fan34_set"].iter() { if let Some(i) = by_name(n) { c09.push(i); } }
        c09.extend(pick(built, "ab", if thorough { 10 } else { 1 }, &mut rng, &|b| b.art.kvs.len() >= 3));
        if thorough { for n in ["fan31_map", "fan34_set", "fan255_map", "fan256_map", "boundary", "chain"].iter() { if let Some(i) = by_name(n) { c09.push(i); } } }
        uniq(&mut c09);
        for &i in &c09 {
            let b = &built[i];
            let name = &b.art.name;
            let sname = format!("F_{}", name.to_uppercase());
            emit_static(&mut s, &sname, &b.bytes);
            let maxl = if b.art.group == "fan" || b.art.group == "wide" { 1 } else { 3.min(b.depth) };
            for l in 1..=maxl.max(1) {
                if name == "uncommon_chain" && l < 3 { continue; }
                let l = if name == "uncommon_chain" { 4 } else { l };
                let mname = format!("{}_l{}", name, l);
                if !emitted_models.contains(&mname) { emitted_models.push(mname); s.push_str(&model_fn(name, l, &b.art.kvs)); }
                let unwind = b.max_fanout.max(8).max(l) + 2;
                let hname = format!("c09_indep_{}_l{}", name, l);
                if index.harnesses.iter().any(|h| h.contains(&format!("\"generated::{}\"", hname))) { continue; }
                let _ = writeln!(s,
"#[kani::proof]
#[kani::unwind({uw})]
fn {h}() {{
    let p: [u8; {l}] = kani::any();
    let want = model_{n}_l{l}(&p);
    let got = crate::layout::indep_get(&{sn}[..], &p[..]);
    assert!(got == want, \"reading the builder's bytes by the format description alone does not yield the inserted map\");
    assert!(crate::layout::indep_root_index_ok(&{sn}[..], p[0]), \"index table of a wide root disagrees with its input bytes\");
    assert!(crate::layout::indep_len(&{sn}[..]) == {nk}, \"footer key count\");
}}
", uw = unwind, h = hname, l = l, n = name, sn = sname, nk = b.art.kvs.len());
                harness_entry(index, "C09", &hname, name, unwind,
                              &format!("independent reader (format description only) on the current builder's bytes for {} ({} bytes): every probe of length {}", name, b.bytes.len(), l),
                              "[]", "light");
            }
        }
    }

    // ---- C16: get_key on monotone maps -----------------------------------
    if want("C16") {
        for &i in &c16 {
            let b = &built[i];
            if !b.monotone && !b.art.kvs.is_empty() && b.art.kvs.len() > 1 { continue; }
            let name = &b.art.name;
            let sname = format!("F_{}", name.to_uppercase());
            emit_static(&mut s, &sname, &b.bytes);
            let mut arms = String::new();
            for (k, v) in &b.art.kvs {
                let mut checks = format!("assert!(found, \"a stored value is not found\"); assert!(buf.len() == {}, \"appended key length\"); assert!(buf[0] == pre, \"caller's prefix preserved\");", 1 + k.len());
                for (j, byte) in k.iter().enumerate() {
                    let _ = write!(checks, " assert!(buf[{}] == {}, \"appended key bytes\");", j + 1, byte);
                }
                let _ = writeln!(arms, "            if v == {}u64 {{ {} hit = true; }}", v, checks);
            }
            let scan = b.max_fanout.min(256);
            let unwind = scan.max(8).max(b.depth) + 3;
            let hname = format!("c16_{}", name);
            let _ = writeln!(s,
"#[kani::proof]
#[kani::unwind({uw})]
fn {h}() {{
    let v: u64 = kani::any();
    let pre: u8 = kani::any();
    match Fst::new(&{sn}[..]) {{
        Ok(f) => {{
            let mut buf: Vec<u8> = Vec::with_capacity({cap});
            buf.push(pre);
            let found = f.get_key_into(v, &mut buf);
            let mut hit = false;
{arms}            if !hit {{ assert!(!found, \"a value no key has is reported as found\"); }}
            kani::cover!(found, \"some value is found\");
            kani::cover!(!found, \"some value is absent\");
            core::mem::forget(buf);
        }}
        Err(e) => {{ core::mem::forget(e); assert!(false, \"built FST does not open\"); }}
    }}
}}
", uw = unwind, h = hname, sn = sname, cap = b.depth + 4, arms = arms);
            let rules = format!("[[\"get_key_into\", {}], [\"Transitions|TakeWhile|take_while|::last|fold\", {}], [\"unpack_uint\", 9]]", b.depth + 2, scan + 2);
            if name == "mono_empty0" || (thorough && name == "mono4") {
                // the caller's buffer already holds more bytes than the whole FST
                let n = b.bytes.len() + 2;
                let hname2 = format!("c16_longbuf_{}", name);
                let mut arms2 = String::new();
                for (k, v) in &b.art.kvs {
                    let mut checks = format!("assert!(found, \"a stored value is not found (pre-filled buffer)\"); assert!(buf.len() == {}, \"appended key length\"); assert!(buf[0] == pre && buf[{}] == pre, \"caller's bytes preserved\");", n + k.len(), n - 1);
                    for (j, byte) in k.iter().enumerate() {
                        let _ = write!(checks, " assert!(buf[{}] == {}, \"appended key bytes\");", j + n, byte);
                    }
                    let _ = writeln!(arms2, "            if v == {}u64 {{ {} hit = true; }}", v, checks);
                }
                let _ = writeln!(s,
"#[kani::proof]
#[kani::unwind({uw})]
fn {h}() {{
    let v: u64 = kani::any();
    let pre: u8 = kani::any();
    match Fst::new(&{sn}[..]) {{
        Ok(f) => {{
            let mut buf: Vec<u8> = Vec::with_capacity({cap});
            buf.extend_from_slice(&[pre; {n}]);
            let found = f.get_key_into(v, &mut buf);
            let mut hit = false;
{arms}            if !hit {{ assert!(!found, \"a value no key has is reported as found\"); }}
            kani::cover!(found, \"some value is found\");
            core::mem::forget(buf);
        }}
        Err(e) => {{ core::mem::forget(e); assert!(false, \"built FST does not open\"); }}
    }}
}}
", uw = unwind.max(n + 2), h = hname2, sn = sname, cap = n + b.depth + 4, n = n, arms = arms2);
                harness_entry(index, "C16", &hname2, name, unwind.max(n + 2),
                              &format!("get_key_into on {} with a caller buffer of {} bytes (longer than the FST): every u64 query value", name, n),
                              &rules, "heavy");
            }
            harness_entry(index, "C16", &hname, name, unwind,
                          &format!("get_key_into on {} ({} keys, depth {}): every u64 query value, symbolic caller prefix", name, b.art.kvs.len(), b.depth),
                          &rules, "heavy");
        }
    }

    // ---- C10: legacy versions through the reference encoder ---------------
    if want("C10") {
        for &i in &c10 {
            let b = &built[i];
            let name = &b.art.name;
            for (ver, bytes) in [(1u64, &b.v1), (2u64, &b.v2)].iter() {
                let sname = format!("F_{}_V{}", name.to_uppercase(), ver);
                emit_static(&mut s, &sname, bytes);
                let maxl = if thorough { 3 } else { 2 }.min(b.depth + 1);
                let scan = if *ver >= 2 && b.max_fanout > 32 { 32 } else { b.max_fanout };
                for l in 0..=maxl {
                    let mname = format!("{}_l{}", name, l);
                    if !emitted_models.contains(&mname) { emitted_models.push(mname); s.push_str(&model_fn(name, l, &b.art.kvs)); }
                    let unwind = scan.max(8).max(l) + 2;
                    let container = match (l + i + *ver as usize) % 3 { 0 => "slice", 1 => "vec", _ => "cow" };
                    let open = match container {
                        "slice" => format!("Fst::new(&{}[..])", sname),
                        "vec" => format!("Fst::new({}.to_vec())", sname),
                        _ => format!("Fst::new(Cow::Borrowed(&{}[..])).and_then(|f| f.map_data(|c| c))", sname),
                    };
                    let hname = format!("c10_{}_v{}_{}_l{}", name, ver, container, l);
                    let _ = writeln!(s,
"#[kani::proof]
#[kani::unwind({uw})]
fn {h}() {{
    {pdecl}
    match {open} {{
        Ok(f) => {{
            let got = f.get(&p[..]).map(|o| o.value());
            assert!(got == want, \"legacy file: get disagrees with content\");
            assert!(f.contains_key(&p[..]) == want.is_some());
            assert!(f.len() == {nk});
            match f.verify() {{
                Err(fst::Error::Fst(fst::raw::Error::ChecksumMissing)) => {{}}
                Ok(()) => assert!(false, \"verify() certifies a file without checksum\"),
                Err(e) => {{ core::mem::forget(e); assert!(false, \"verify(): wrong error for a version without checksum\"); }}
            }}
            core::mem::forget(f);
        }}
        Err(e) => {{ core::mem::forget(e); assert!(false, \"well-formed legacy file does not open\"); }}
    }}
}}
", uw = unwind, h = hname, open = open, nk = b.art.kvs.len(),
   pdecl = if l == 0 { format!("let backing = [0u8; 1];\n    let p: &[u8] = &backing[..0];\n    let want = model_{}_l0(&[]);", name) } else { format!("let p: [u8; {}] = kani::any();\n    let want = model_{}_l{}(&p);", l, name, l) });
                    harness_entry(index, "C10", &hname, name, unwind,
                                  &format!("version-{} file ({} bytes, reference-encoded) of {} in a {}: opens, every probe of length {}, verify()=ChecksumMissing", ver, bytes.len(), name, container, l),
                                  "[]", if bytes.len() > 200 || b.art.group == "fan" || b.art.group == "wide" { "heavy" } else { "light" });
                }
            }
        }
    }
    s
}
