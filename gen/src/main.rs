//! Native generator: builds, with the *current* /repo tree, the concrete
//! artifacts the solver harnesses embed, cross-checks each natively with the
//! independent decoder/encoder, and writes
//!   <out>/generated.rs   Rust source included by the harness crate
//!   <out>/index.json     what was generated (read by check.py)
//!   <out>/lev/*.json     Levenshtein tables extracted through the public API
#[path = "../../shared/format_table.rs"]
pub mod format_table;
#[path = "../../shared/layout.rs"]
pub mod layout;
mod emit;
mod family;
mod lev;
mod native;
mod refdec;
mod refenc;

use std::env;
use std::fs;

fn main() {
    let args: Vec<String> = env::args().collect();
    let mut out = String::from("/verif/harness/src/generated");
    let mut seed: u64 = 0;
    let mut tier = String::from("quick");
    let mut props: Vec<String> = vec![];
    if args.len() >= 5 && args[1] == "--lev-replay" {
        lev::replay(&args[2], args[3].parse().unwrap(), &args[4]);
        return;
    }
    let mut i = 1;
    while i < args.len() {
        match args[i].as_str() {
            "--out" => { out = args[i + 1].clone(); i += 1; }
            "--seed" => { seed = args[i + 1].parse().unwrap(); i += 1; }
            "--tier" => { tier = args[i + 1].clone(); i += 1; }
            "--props" => { props = args[i + 1].split(',').map(|s| s.to_string()).collect(); i += 1; }
            _ => panic!("unknown arg {}", args[i]),
        }
        i += 1;
    }
    fs::create_dir_all(&out).unwrap();
    let want = |p: &str| props.is_empty() || props.iter().any(|x| x == p);
    let fam = family::family(seed);
    let mut index = emit::Index::default();
    let built = emit::build_and_crosscheck(&fam, &mut index);
    if want("C07") { native::write_schedules(&fam, &mut index); }
    if want("C11") { native::fault_enumeration(&fam, &mut index); }
    if want("C06") { native::ordering_front_ends(&mut index); }
    let src = emit::emit_rust(&built, seed, &tier, &want, &mut index);
    fs::write(format!("{}/mod.rs", out), src).unwrap();
    if want("C17") {
        lev::extract_all(&format!("{}/lev", out), seed, &tier, &mut index);
    }
    fs::write(format!("{}/index.json", out), index.to_json()).unwrap();
    println!("generated {} artifacts, {} harnesses, {} native failures",
             index.artifacts.len(), index.harnesses.len(), index.native_failures.len());
}
