//! The artifact family: small maps/sets whose bytes are produced by the
//! current builder on every run.
#[derive(Clone, Debug)]
pub struct Art {
    pub name: String,
    pub is_map: bool,
    pub kvs: Vec<(Vec<u8>, u64)>,
    pub group: &'static str,
}

pub fn is_monotone(kvs: &[(Vec<u8>, u64)]) -> bool {
    kvs.windows(2).all(|w| w[0].1 < w[1].1)
}

pub struct Rng(pub u64);
impl Rng {
    pub fn next(&mut self) -> u64 {
        // splitmix64
        self.0 = self.0.wrapping_add(0x9E37_79B9_7F4A_7C15);
        let mut z = self.0;
        z = (z ^ (z >> 30)).wrapping_mul(0xBF58_476D_1CE4_E5B9);
        z = (z ^ (z >> 27)).wrapping_mul(0x94D0_49BB_1331_11EB);
        z ^ (z >> 31)
    }
    pub fn below(&mut self, n: u64) -> u64 {
        self.next() % n
    }
}

const BOUNDARY: [u64; 14] = [
    0, 1, 255, 256, 65_535, 65_536, (1 << 24) - 1, 1 << 24, (1u64 << 32) - 1, 1u64 << 32,
    (1u64 << 56) - 1, 1u64 << 56, u64::MAX - 1, u64::MAX,
];
const MONO: [u64; 8] = [3, 5, 300, 70_000, 70_001, 1 << 33, (1 << 56) + 9, u64::MAX];

fn values(scheme: u64, n: usize, rng: &mut Rng) -> Vec<u64> {
    (0..n)
        .map(|i| match scheme {
            0 => MONO[i % MONO.len()],
            1 => MONO[MONO.len() - 1 - (i % MONO.len())],
            2 => 7,
            3 => BOUNDARY[(rng.below(BOUNDARY.len() as u64)) as usize],
            _ => (i as u64) * 1000 + 1,
        })
        .collect()
}

pub fn family(seed: u64) -> Vec<Art> {
    let mut out = vec![];
    let mut rng = Rng(seed ^ 0xF57F_57F5);
    // 1. every subset of {"", a, b, aa, ab, ba, bb}, as a set and as a map
    let universe: Vec<Vec<u8>> =
        vec![vec![], b"a".to_vec(), b"aa".to_vec(), b"ab".to_vec(), b"b".to_vec(), b"ba".to_vec(), b"bb".to_vec()];
    for mask in 0u32..128 {
        let keys: Vec<Vec<u8>> =
            universe.iter().enumerate().filter(|(i, _)| mask >> i & 1 == 1).map(|(_, k)| k.clone()).collect();
        out.push(Art {
            name: format!("abset_{:03}", mask),
            is_map: false,
            kvs: keys.iter().map(|k| (k.clone(), 0)).collect(),
            group: "ab",
        });
        let vs = values((mask % 4) as u64, keys.len(), &mut rng);
        out.push(Art {
            name: format!("abmap_{:03}", mask),
            is_map: true,
            kvs: keys.iter().cloned().zip(vs).collect(),
            group: "ab",
        });
        // a strictly monotone twin for get_key
        let vs = values(0, keys.len(), &mut rng);
        out.push(Art {
            name: format!("abmono_{:03}", mask),
            is_map: true,
            kvs: keys.iter().cloned().zip(vs).collect(),
            group: "abmono",
        });
    }
    // 2. named specials
    let kv = |v: &[(&[u8], u64)]| v.iter().map(|(k, x)| (k.to_vec(), *x)).collect::<Vec<_>>();
    out.push(Art { name: "empty".into(), is_map: true, kvs: vec![], group: "special" });
    out.push(Art { name: "only_empty_key_set".into(), is_map: false, kvs: kv(&[(b"", 0)]), group: "special" });
    out.push(Art { name: "only_empty_key_map".into(), is_map: true, kvs: kv(&[(b"", 3)]), group: "special" });
    out.push(Art {
        name: "mono4".into(),
        is_map: true,
        kvs: kv(&[(b"", 3), (b"a", 5), (b"ab", 300), (b"b", 70_000)]),
        group: "mono",
    });
    out.push(Art {
        name: "mono_from0".into(),
        is_map: true,
        kvs: kv(&[(b"a", 0), (b"ab", 1), (b"b", 2), (b"ba", 1 << 40)]),
        group: "mono",
    });
    out.push(Art {
        name: "mono_empty0".into(),
        is_map: true,
        kvs: kv(&[(b"", 0), (b"a", 1), (b"b", 256)]),
        group: "mono",
    });
    out.push(Art {
        name: "mono_deep".into(),
        is_map: true,
        kvs: kv(&[(b"a", 10), (b"ab", 20), (b"abc", 21), (b"abd", 65_536), (b"b", u64::MAX)]),
        group: "mono",
    });
    out.push(Art {
        name: "months".into(),
        is_map: true,
        kvs: kv(&[(b"feb", 2), (b"jan", 1), (b"jul", 7), (b"jun", 6), (b"mar", 3), (b"may", 5)]),
        group: "special",
    });
    out.push(Art {
        name: "months_set".into(),
        is_map: false,
        kvs: kv(&[(b"feb", 0), (b"jan", 0), (b"jul", 0), (b"jun", 0), (b"mar", 0), (b"may", 0)]),
        group: "special",
    });
    out.push(Art {
        name: "chain".into(),
        is_map: true,
        kvs: kv(&[(b"x", 9), (b"xy", 8), (b"xyz", 7), (b"xyzw", u64::MAX)]),
        group: "special",
    });
    out.push(Art {
        name: "boundary".into(),
        is_map: true,
        kvs: (0..BOUNDARY.len()).map(|i| (vec![b'k', i as u8 + b'a'], BOUNDARY[i])).collect(),
        group: "special",
    });
    out.push(Art {
        name: "uncommon_bytes".into(),
        is_map: true,
        kvs: kv(&[(&[0x00], 1), (&[0x00, 0xff], 2), (&[0x80], 300), (&[0xfe, 0xfd], 4), (&[0xff], 5), (&[0xff, 0xff], 6)]),
        group: "special",
    });
    // one-trans-next nodes whose input byte is outside the common-input table
    out.push(Art {
        name: "uncommon_chain".into(),
        is_map: true,
        kvs: kv(&[(&[0x20, 0x80, 0x81, 0x82], 9), (&[0xfe, 0xfd, 0xfc, 0xfb], 4)]),
        group: "special",
    });
    // zero values on keys sharing a prefix that carries a non-zero output
    out.push(Art {
        name: "zero_after_prefix".into(),
        is_map: true,
        kvs: kv(&[(b"ab", 5), (b"ac", 0), (b"b", 0), (b"ba", 7), (b"bb", 0), (b"bc", 1 << 40)]),
        group: "special",
    });
    // final nodes with more than 32 transitions and a non-zero final output
    {
        let mut kvs2: Vec<(Vec<u8>, u64)> = vec![(vec![], 1000)];
        for i in 0..40usize {
            kvs2.push((vec![(i * 5 + 3) as u8], (i as u64) * 3 + 1));
        }
        out.push(Art { name: "rootfinal40".into(), is_map: true, kvs: kvs2, group: "wide" });
        let mut kvs3: Vec<(Vec<u8>, u64)> = vec![(b"k".to_vec(), 500_000)];
        for i in 0..33usize {
            kvs3.push((vec![b'k', (i * 7 + 1) as u8], (i as u64) + 2));
        }
        out.push(Art { name: "kfinal33".into(), is_map: true, kvs: kvs3, group: "wide" });
    }
    // two equivalent nodes with all 256 transitions
    {
        let mut kvs2: Vec<(Vec<u8>, u64)> = vec![];
        for a in [b'a', b'b'].iter() {
            for i in 0..256usize {
                kvs2.push((vec![*a, i as u8], 0));
            }
        }
        out.push(Art { name: "fan256x2_set".into(), is_map: false, kvs: kvs2, group: "fan" });
    }
    for &n in &[31usize, 32, 33, 34, 255, 256] {
        let keys: Vec<Vec<u8>> = (0..n).map(|i| vec![(if n == 256 { i } else { i + (i >= 100) as usize }) as u8]).collect();
        out.push(Art {
            name: format!("fan{}_set", n),
            is_map: false,
            kvs: keys.iter().map(|k| (k.clone(), 0)).collect(),
            group: "fan",
        });
        out.push(Art {
            name: format!("fan{}_map", n),
            is_map: true,
            kvs: keys.iter().enumerate().map(|(i, k)| (k.clone(), (i as u64) * 259 + 1)).collect(),
            group: "fan",
        });
        // two levels: a wide root whose children continue
        let mut kvs2: Vec<(Vec<u8>, u64)> = vec![];
        for (i, k) in keys.iter().enumerate() {
            kvs2.push((k.clone(), i as u64 * 3));
            if i % 7 == 0 {
                kvs2.push((vec![k[0], b'z'], i as u64 * 3 + 1));
            }
        }
        out.push(Art { name: format!("fan{}_deep", n), is_map: true, kvs: kvs2, group: "fan" });
    }
    // 3. seeded random key sets over {a,b,c}, keys <= 3 bytes
    for r in 0..24 {
        let nkeys = 2 + rng.below(6) as usize;
        let mut keys: Vec<Vec<u8>> = vec![];
        for _ in 0..nkeys {
            let l = rng.below(4) as usize;
            keys.push((0..l).map(|_| b'a' + rng.below(3) as u8).collect());
        }
        keys.sort();
        keys.dedup();
        let scheme = rng.below(4);
        let vs = values(scheme, keys.len(), &mut rng);
        out.push(Art {
            name: format!("rnd_{:02}", r),
            is_map: true,
            kvs: keys.iter().cloned().zip(vs).collect(),
            group: "rnd",
        });
    }
    out
}
