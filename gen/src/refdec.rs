//! Whole-file independent reader built on the shared node-layout decoder:
//! header, footer, checksum, node graph walk, tiling, backward-only targets,
//! and extraction of the stored map.
use std::collections::BTreeMap;

use crate::layout::{decode_head, decode_index, decode_trans, Form};
use crate::refenc::crc32c;

pub struct Decoded {
    pub version: u64,
    pub ty: u64,
    pub len: u64,
    pub root: usize,
    pub kvs: Vec<(Vec<u8>, u64)>,
    pub nodes: usize,
    pub max_fanout: usize,
    pub depth: usize,
}

fn rd(bs: &[u8], at: usize, n: usize) -> u64 {
    let mut v = 0u64;
    for i in 0..n {
        v |= (bs[at + i] as u64) << (8 * i);
    }
    v
}

pub fn decode_file(bs: &[u8]) -> Result<Decoded, String> {
    if bs.len() < 32 {
        return Err(format!("too short: {}", bs.len()));
    }
    let version = rd(bs, 0, 8);
    if version == 0 || version > 3 {
        return Err(format!("version {}", version));
    }
    let ty = rd(bs, 8, 8);
    let end = if version >= 3 {
        if bs.len() < 36 {
            return Err("too short for v3".into());
        }
        let stored = rd(bs, bs.len() - 4, 4) as u32;
        let sum = crc32c(&bs[..bs.len() - 4]);
        let masked = sum.rotate_right(15).wrapping_add(0xA282_EAD8);
        if stored != masked {
            return Err(format!("checksum: stored {:08x} computed {:08x}", stored, masked));
        }
        bs.len() - 4
    } else {
        bs.len()
    };
    let root = rd(bs, end - 8, 8) as usize;
    let len = rd(bs, end - 16, 8);
    let body_end = end - 16; // nodes tile [16, body_end)
    // walk
    let mut extents: BTreeMap<usize, usize> = BTreeMap::new(); // start -> addr
    let mut kvs = vec![];
    let mut key = vec![];
    let mut max_fanout = 0;
    let mut depth = 0;
    fn go(
        bs: &[u8], version: u64, body_end: usize, addr: usize, acc: u64, key: &mut Vec<u8>,
        kvs: &mut Vec<(Vec<u8>, u64)>, extents: &mut BTreeMap<usize, usize>,
        max_fanout: &mut usize, depth: &mut usize, limit: usize,
    ) -> Result<(), String> {
        if addr != 0 && (addr < 16 || addr >= body_end) {
            return Err(format!("node address {} out of the body [16,{})", addr, body_end));
        }
        let h = decode_head(bs, addr, version);
        if h.form != Form::EmptyFinal {
            if h.start < 16 || h.start > h.addr {
                return Err(format!("node extent [{},{}] invalid", h.start, h.addr));
            }
            if let Some(&a) = extents.get(&h.start) {
                if a != h.addr {
                    return Err(format!("two nodes start at {}", h.start));
                }
            }
            extents.insert(h.start, h.addr);
        }
        *max_fanout = (*max_fanout).max(h.ntrans);
        *depth = (*depth).max(key.len());
        if h.is_final {
            kvs.push((key.clone(), acc.checked_add(h.final_output).ok_or("value overflow")?));
        }
        if h.form == Form::AnyTrans && version >= 2 && h.ntrans > 32 {
            for b in 0..=255u8 {
                let mut want = None;
                for i in 0..h.ntrans {
                    if decode_trans(bs, &h, i).0 == b { want = Some(i); }
                }
                if decode_index(bs, &h, version, b) != want {
                    return Err(format!("index table of node {} disagrees with its inputs at byte {}", addr, b));
                }
            }
        }
        let mut prev: Option<u8> = None;
        for i in 0..h.ntrans {
            let (inp, out, tgt) = decode_trans(bs, &h, i);
            if let Some(p) = prev {
                if inp <= p {
                    return Err(format!("inputs not strictly increasing at node {}", addr));
                }
            }
            prev = Some(inp);
            if tgt != 0 && tgt >= h.start {
                return Err(format!("forward/self transition {} -> {}", addr, tgt));
            }
            if key.len() > limit {
                return Err("depth limit".into());
            }
            key.push(inp);
            go(bs, version, body_end, tgt, acc.checked_add(out).ok_or("value overflow")?, key, kvs,
               extents, max_fanout, depth, limit)?;
            key.pop();
        }
        Ok(())
    }
    go(bs, version, body_end, root, 0, &mut key, &mut kvs, &mut extents, &mut max_fanout, &mut depth, 64)?;
    // tiling: extents sorted by start must be contiguous from 16 to body_end
    let mut cur = 16;
    for (&s, &a) in &extents {
        if s != cur {
            return Err(format!("gap or overlap: expected node start {}, found {}", cur, s));
        }
        cur = a + 1;
    }
    if cur != body_end {
        return Err(format!("body ends at {} but footer starts at {}", cur, body_end));
    }
    if root == 0 {
        if !extents.is_empty() {
            return Err("empty root with nodes".into());
        }
    } else if root + 1 != body_end {
        return Err(format!("root {} is not the last node (body end {})", root, body_end));
    }
    if len as usize != kvs.len() {
        return Err(format!("len {} but {} keys", len, kvs.len()));
    }
    Ok(Decoded { version, ty, len, root, kvs, nodes: extents.len(), max_fanout, depth })
}
