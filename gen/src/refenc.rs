//! Reference encoder: an independent implementation of the on-disk format
//! (versions 1, 2, 3) written from the format description. It builds the
//! key trie, places outputs canonically (each transition carries the minimum
//! of the values below it, relative to what was already emitted above),
//! emits nodes in post-order with full sharing of equal nodes, and serialises
//! each node in the documented layout. Used for (a) legacy v1/v2 files that
//! no current builder can produce, (b) a byte-for-byte cross-check of the
//! current builder's v3 output on the artifact family (native, not a solver
//! result).
use std::collections::BTreeMap;
use std::collections::HashMap;

use crate::format_table::FORMAT_COMMON_INPUTS_INV;

#[derive(Default)]
struct Trie {
    val: Option<u64>,
    kids: BTreeMap<u8, Trie>,
}

fn submin(t: &Trie) -> u64 {
    let mut m = t.val.unwrap_or(u64::MAX);
    for k in t.kids.values() {
        m = m.min(submin(k));
    }
    m
}

#[derive(Clone, PartialEq, Eq, Hash, Debug)]
pub struct RNode {
    pub is_final: bool,
    pub final_output: u64,
    pub trans: Vec<(u8, u64, usize)>,
}

pub struct RefOut {
    pub bytes: Vec<u8>,
    pub nodes_emitted: usize,
}

fn pack_size(n: u64) -> usize {
    let mut k = 1;
    while k < 8 && n >= (1u64 << (8 * k)) {
        k += 1;
    }
    k
}

fn put_le(out: &mut Vec<u8>, n: u64, w: usize) {
    for i in 0..w {
        out.push((n >> (8 * i)) as u8);
    }
}

fn common_idx(b: u8) -> u8 {
    // index+1 of `b` in the format's table if it fits 6 bits, else 0
    let pos = FORMAT_COMMON_INPUTS_INV.iter().position(|&x| x == b).unwrap();
    if pos + 1 <= 0x3f {
        (pos + 1) as u8
    } else {
        0
    }
}

struct Enc {
    version: u64,
    out: Vec<u8>,
    last_addr: usize,
    seen: HashMap<RNode, usize>,
    emitted: usize,
}

impl Enc {
    fn emit(&mut self, n: &RNode) -> usize {
        if n.is_final && n.trans.is_empty() && n.final_output == 0 {
            return 0;
        }
        if let Some(&a) = self.seen.get(n) {
            return a;
        }
        let start = self.out.len();
        let delta = |t: usize| if t == 0 { 0u64 } else { (start - t) as u64 };
        if n.trans.len() == 1 && !n.is_final {
            let (inp, o, tgt) = n.trans[0];
            let ci = common_idx(inp);
            if tgt == self.last_addr && o == 0 {
                if ci == 0 {
                    self.out.push(inp);
                }
                self.out.push(0b1100_0000 | ci);
            } else {
                let osz = if o == 0 { 0 } else { pack_size(o) };
                put_le(&mut self.out, o, osz);
                let tsz = pack_size(delta(tgt));
                put_le(&mut self.out, delta(tgt), tsz);
                self.out.push(((tsz as u8) << 4) | osz as u8);
                if ci == 0 {
                    self.out.push(inp);
                }
                self.out.push(0b1000_0000 | ci);
            }
        } else {
            let any = n.final_output != 0 || n.trans.iter().any(|t| t.1 != 0);
            let mut osz = pack_size(n.final_output);
            let mut tsz = 0;
            for t in &n.trans {
                osz = osz.max(pack_size(t.1));
                tsz = tsz.max(pack_size(delta(t.2)));
            }
            if !any {
                osz = 0;
            }
            if any {
                if n.is_final {
                    put_le(&mut self.out, n.final_output, osz);
                }
                for t in n.trans.iter().rev() {
                    put_le(&mut self.out, t.1, osz);
                }
            }
            for t in n.trans.iter().rev() {
                put_le(&mut self.out, delta(t.2), tsz);
            }
            for t in n.trans.iter().rev() {
                self.out.push(t.0);
            }
            if self.version >= 2 && n.trans.len() > 32 {
                let mut index = [255u8; 256];
                for (i, t) in n.trans.iter().enumerate() {
                    index[t.0 as usize] = i as u8;
                }
                self.out.extend_from_slice(&index);
            }
            self.out.push(((tsz as u8) << 4) | osz as u8);
            let cnt = n.trans.len();
            let mut state = if n.is_final { 0b0100_0000u8 } else { 0 };
            if cnt >= 1 && cnt <= 0x3f {
                state |= cnt as u8;
            } else {
                self.out.push(if cnt == 256 { 1 } else { cnt as u8 });
            }
            self.out.push(state);
        }
        self.emitted += 1;
        let addr = self.out.len() - 1;
        self.last_addr = addr;
        self.seen.insert(n.clone(), addr);
        addr
    }

    /// post-order; `acc` = sum of outputs on the path to `t`
    fn walk(&mut self, t: &Trie, acc: u64, is_root: bool) -> usize {
        let mut trans = vec![];
        for (&b, k) in &t.kids {
            let m = submin(k);
            let o = m - acc;
            let a = self.walk(k, m, false);
            trans.push((b, o, a));
        }
        let _ = is_root;
        let node = RNode {
            is_final: t.val.is_some(),
            final_output: t.val.map(|v| v - acc).unwrap_or(0),
            trans,
        };
        self.emit(&node)
    }
}

/// Encode a strictly increasing list of (key, value) in the given version.
pub fn encode(version: u64, ty: u64, kvs: &[(Vec<u8>, u64)]) -> RefOut {
    let mut root = Trie::default();
    for (k, v) in kvs {
        let mut t = &mut root;
        for &b in k {
            t = t.kids.entry(b).or_default();
        }
        t.val = Some(*v);
    }
    let mut e = Enc { version, out: vec![], last_addr: 1, seen: HashMap::new(), emitted: 0 };
    put_le(&mut e.out, version, 8);
    put_le(&mut e.out, ty, 8);
    let root_addr = e.walk(&root, 0, true);
    put_le(&mut e.out, kvs.len() as u64, 8);
    put_le(&mut e.out, root_addr as u64, 8);
    if version >= 3 {
        let sum = crc32c(&e.out);
        let masked = sum.rotate_right(15).wrapping_add(0xA282_EAD8);
        put_le(&mut e.out, masked as u64, 4);
    }
    RefOut { bytes: e.out, nodes_emitted: e.emitted }
}

/// Bitwise CRC-32C (Castagnoli).
pub fn crc32c(bs: &[u8]) -> u32 {
    let mut reg: u32 = !0;
    for &b in bs {
        reg ^= b as u32;
        for _ in 0..8 {
            reg = if reg & 1 == 1 { (reg >> 1) ^ 0x82F6_3B78 } else { reg >> 1 };
        }
    }
    !reg
}
