//! Native, concrete cross-checks on whole builds (not solver-decided; they
//! complement the solver's step lemmas where the builder as a whole is out of
//! the model checker's reach). Every failure is a concrete, reproducible
//! violation against the real code.
use std::io::{self, Write};

use fst::raw::{Builder, Output};
use fst::{MapBuilder, Streamer};

use crate::emit::Index;
use crate::family::Art;

/// Accepts at most `cap` bytes per call; every `intr`-th call is Interrupted.
struct Chunky {
    buf: Vec<u8>,
    cap: usize,
    intr: usize,
    calls: usize,
}

impl Write for Chunky {
    fn write(&mut self, b: &[u8]) -> io::Result<usize> {
        self.calls += 1;
        if self.intr > 0 && self.calls % self.intr == 0 {
            return Err(io::ErrorKind::Interrupted.into());
        }
        let n = b.len().min(self.cap);
        self.buf.extend_from_slice(&b[..n]);
        Ok(n)
    }
    fn flush(&mut self) -> io::Result<()> {
        Ok(())
    }
}

fn build_into<W: Write>(a: &Art, w: W) -> Result<(W, u64), String> {
    let e = |x: fst::Error| format!("{:?}", x);
    let mut b = Builder::new_type(w, 0).map_err(e)?;
    for (k, v) in &a.kvs {
        if a.is_map { b.insert(k, *v).map_err(e)?; } else { b.add(k).map_err(e)?; }
    }
    let written = b.bytes_written();
    let w = b.into_inner().map_err(e)?;
    Ok((w, written))
}

/// C07: the bytes do not depend on the write schedule.
pub fn write_schedules(fam: &[Art], index: &mut Index) {
    let names = ["months", "fan33_map", "fan256_map", "boundary", "mono4", "empty", "uncommon_chain"];
    for a in fam.iter().filter(|a| names.contains(&a.name.as_str())) {
        let reference = match build_into(a, Vec::new()) { Ok((v, _)) => v, Err(_) => continue };
        for &(cap, intr) in &[(1usize, 0usize), (2, 0), (3, 0), (7, 0), (8, 3), (16, 0), (100, 2), (255, 0), (256, 5), (1 << 20, 2)] {
            index.native_checks += 1;
            let r = std::panic::catch_unwind(|| build_into(a, Chunky { buf: vec![b'#'; 3], cap, intr, calls: 0 }));
            match r {
                Ok(Ok((s, written_before_finish))) => {
                    if s.buf[..3] != [b'#'; 3] || s.buf[3..] != reference[..] {
                        index.fail(&["C07"], &a.name, &format!("sink accepting <= {} bytes per call (Interrupted every {} calls) ends up with different bytes than the in-memory build ({} vs {} bytes)", cap, intr, s.buf.len() - 3, reference.len()));
                    }
                    let _ = written_before_finish;
                }
                Ok(Err(e)) => index.fail(&["C07"], &a.name, &format!("build failed under short writes / Interrupted (cap {}, every {}): {}", cap, intr, e)),
                Err(_) => index.fail(&["C07"], &a.name, "builder panicked under short writes"),
            }
        }
    }
}

/// Fails at call index `fail_at` (writes and the final flush are counted).
struct Faulty {
    fail_at: usize,
    zero: bool,
    calls: usize,
    fired: bool,
    accepted: usize,
    last_was_flush: bool,
}

impl Write for Faulty {
    fn write(&mut self, b: &[u8]) -> io::Result<usize> {
        let me = self.calls;
        self.calls += 1;
        self.last_was_flush = false;
        if me == self.fail_at {
            self.fired = true;
            return if self.zero { Ok(0) } else { Err(io::ErrorKind::Other.into()) };
        }
        self.accepted += b.len();
        Ok(b.len())
    }
    fn flush(&mut self) -> io::Result<()> {
        let me = self.calls;
        self.calls += 1;
        self.last_was_flush = true;
        if me == self.fail_at && !self.zero {
            self.fired = true;
            return Err(io::ErrorKind::Other.into());
        }
        Ok(())
    }
}

/// C11: every single failing call of a whole build surfaces as Err(Io).
pub fn fault_enumeration(fam: &[Art], index: &mut Index) {
    let names = ["empty", "only_empty_key_map", "months", "mono4", "boundary", "fan33_set", "fan33_map", "kfinal33", "fan256_map"];
    for a in fam.iter().filter(|a| names.contains(&a.name.as_str())) {
        // count the calls of a fault-free build
        let total = match build_into(a, Faulty { fail_at: usize::MAX, zero: false, calls: 0, fired: false, accepted: 0, last_was_flush: false }) {
            Ok((s, _)) => {
                if !s.last_was_flush {
                    index.fail(&["C11"], &a.name, "build reported as finished without flushing the sink after the last write (a failing flush would be swallowed)");
                }
                s.calls
            }
            Err(_) => continue,
        };
        for fail_at in 0..total {
            for &zero in &[false, true] {
                index.native_checks += 1;
                let r = std::panic::catch_unwind(|| {
                    let e = |x: fst::Error| matches!(x, fst::Error::Io(_));
                    let w = Faulty { fail_at, zero, calls: 0, fired: false, accepted: 0, last_was_flush: false };
                    let mut b = match Builder::new_type(w, 0) { Ok(b) => b, Err(x) => return Err(e(x)) };
                    for (k, v) in &a.kvs {
                        let r = if a.is_map { b.insert(k, *v) } else { b.add(k) };
                        if let Err(x) = r { return Err(e(x)); }
                    }
                    match b.into_inner() { Ok(s) => Ok(s.fired), Err(x) => Err(e(x)) }
                });
                let is_flush = fail_at + 1 == total;
                match r {
                    Ok(Ok(fired)) => {
                        if fired || !(zero && is_flush) {
                            index.fail(&["C11"], &a.name, &format!("build reported as finished although call {} of {} failed ({})", fail_at, total, if zero { "zero-length write" } else { "error" }));
                        }
                    }
                    Ok(Err(true)) => {}
                    Ok(Err(false)) => index.fail(&["C11"], &a.name, &format!("failure of call {} surfaced as a non-Io error", fail_at)),
                    Err(_) => index.fail(&["C11"], &a.name, &format!("builder panicked when call {} of {} failed", fail_at, total)),
                }
            }
        }
    }
}

struct VecStream {
    items: Vec<(Vec<u8>, u64)>,
    pos: usize,
}

impl<'a> Streamer<'a> for VecStream {
    type Item = (&'a [u8], u64);
    fn next(&'a mut self) -> Option<(&'a [u8], u64)> {
        if self.pos >= self.items.len() {
            return None;
        }
        self.pos += 1;
        let (k, v) = &self.items[self.pos - 1];
        Some((&k[..], *v))
    }
}

#[derive(PartialEq, Debug, Clone)]
enum Outcome {
    Ok,
    Dup(Vec<u8>),
    Ooo(Vec<u8>, Vec<u8>),
    Other,
}

fn outcome(r: Result<(), fst::Error>) -> Outcome {
    match r {
        Ok(()) => Outcome::Ok,
        Err(fst::Error::Fst(fst::raw::Error::DuplicateKey { got })) => Outcome::Dup(got),
        Err(fst::Error::Fst(fst::raw::Error::OutOfOrder { previous, got })) => Outcome::Ooo(previous, got),
        Err(_) => Outcome::Other,
    }
}

/// C06: every sequence of <= 3 (key, value) items over a tiny universe through
/// the map front ends: stops at the first rejected item with the contract's
/// error, and the finished map holds exactly the accepted prefix.
pub fn ordering_front_ends(index: &mut Index) {
    let keys: [&[u8]; 4] = [b"", b"a", b"ab", b"b"];
    let vals: [u64; 2] = [0, 7];
    let mut items: Vec<(Vec<u8>, u64)> = vec![];
    for k in keys.iter() { for v in vals.iter() { items.push((k.to_vec(), *v)); } }
    let n = items.len();
    for len in 1..=3usize {
        let mut idx = vec![0usize; len];
        loop {
            let seq: Vec<(Vec<u8>, u64)> = idx.iter().map(|&i| items[i].clone()).collect();
            // model
            let mut accepted: Vec<(Vec<u8>, u64)> = vec![];
            let mut want = Outcome::Ok;
            for (k, v) in &seq {
                if let Some((last, _)) = accepted.last() {
                    if k == last { want = Outcome::Dup(k.clone()); break; }
                    if k < last { want = Outcome::Ooo(last.clone(), k.clone()); break; }
                }
                accepted.push((k.clone(), *v));
            }
            for front in 0..3 {
                index.native_checks += 1;
                let seq2 = seq.clone();
                let r = std::panic::catch_unwind(move || {
                    let mut b = MapBuilder::memory();
                    let r = match front {
                        0 => { let mut r = Ok(()); for (k, v) in &seq2 { r = b.insert(k, *v); if r.is_err() { break; } } r }
                        1 => b.extend_iter(seq2.iter().cloned()),
                        _ => b.extend_stream(VecStream { items: seq2.clone(), pos: 0 }),
                    };
                    let got = outcome(r);
                    let content = b.into_inner().ok().and_then(|bytes| fst::Map::new(bytes).ok()).map(|m| m.stream().into_byte_vec());
                    (got, content)
                });
                let fe = ["insert", "extend_iter", "extend_stream"][front];
                match r {
                    Ok((got, content)) => {
                        if got != want {
                            index.fail(&["C06"], "ordering", &format!("MapBuilder::{} on {:?}: got {:?}, contract says {:?}", fe, seq, got, want));
                        } else if content.as_ref() != Some(&accepted) {
                            index.fail(&["C06"], "ordering", &format!("MapBuilder::{} on {:?}: finished map holds {:?}, accepted were {:?}", fe, seq, content, accepted));
                        }
                    }
                    Err(_) => index.fail(&["C06"], "ordering", &format!("MapBuilder::{} panicked on {:?}", fe, seq)),
                }
            }
            // next index vector
            let mut p = len;
            loop {
                if p == 0 { break; }
                p -= 1;
                idx[p] += 1;
                if idx[p] < n { break; }
                idx[p] = 0;
                if p == 0 { p = usize::MAX; break; }
            }
            if p == usize::MAX { break; }
        }
    }
    let _ = Output::zero();
    ordering_histories(index);
}

/// C06, whole call histories (the builder *continues* after a rejected call):
/// every sequence of <= 4 calls over {"", "a", "ab", "b"} on a MapBuilder
/// (insert) and on a SetBuilder (insert; a repeat of the last key is a no-op).
/// Each call's result and payload against the contract, then the finished
/// content and the recorded key count against the accepted keys.
fn ordering_histories(index: &mut Index) {
    let keys: [&[u8]; 4] = [b"", b"a", b"ab", b"b"];
    for len in 1..=4usize {
        let total = 4usize.pow(len as u32);
        for code in 0..total {
            let mut c = code;
            let seq: Vec<Vec<u8>> = (0..len).map(|_| { let k = keys[c % 4].to_vec(); c /= 4; k }).collect();
            for is_set in [false, true] {
                index.native_checks += 1;
                // model
                let mut accepted: Vec<Vec<u8>> = vec![];
                let mut want: Vec<Outcome> = vec![];
                for k in &seq {
                    match accepted.last() {
                        Some(last) if k == last => want.push(if is_set { Outcome::Ok } else { Outcome::Dup(k.clone()) }),
                        Some(last) if k < last => want.push(Outcome::Ooo(last.clone(), k.clone())),
                        _ => { want.push(Outcome::Ok); accepted.push(k.clone()); }
                    }
                }
                let seq2 = seq.clone();
                let r = std::panic::catch_unwind(move || {
                    if is_set {
                        let mut b = fst::SetBuilder::memory();
                        let got: Vec<Outcome> = seq2.iter().map(|k| outcome(b.insert(k))).collect();
                        let set = b.into_inner().ok().and_then(|bytes| fst::Set::new(bytes).ok());
                        let content = set.as_ref().map(|s| s.stream().into_bytes());
                        (got, content, set.map(|s| s.len()))
                    } else {
                        let mut b = MapBuilder::memory();
                        let got: Vec<Outcome> = seq2.iter().enumerate().map(|(i, k)| outcome(b.insert(k, i as u64 + 1))).collect();
                        let map = b.into_inner().ok().and_then(|bytes| fst::Map::new(bytes).ok());
                        let content = map.as_ref().map(|m| m.stream().into_byte_keys());
                        (got, content, map.map(|m| m.len()))
                    }
                });
                let what = if is_set { "SetBuilder" } else { "MapBuilder" };
                match r {
                    Ok((got, content, n)) => {
                        if got != want {
                            index.fail(&["C06"], "ordering", &format!("{} history {:?}: results {:?}, contract says {:?}", what, seq, got, want));
                        } else if content.as_ref() != Some(&accepted) {
                            index.fail(&["C06"], "ordering", &format!("{} history {:?}: finished content {:?}, accepted were {:?}", what, seq, content, accepted));
                        } else if n != Some(accepted.len()) {
                            index.fail(&["C06"], "ordering", &format!("{} history {:?}: len() = {:?} but {} keys were accepted", what, seq, n, accepted.len()));
                        }
                    }
                    Err(_) => index.fail(&["C06"], "ordering", &format!("{} panicked on history {:?}", what, seq)),
                }
            }
        }
    }
}
