//! C11: a sink that fails at a symbolic call index, with a symbolic failure
//! kind (an error of some ErrorKind, or a zero-length write), under every
//! emission primitive, the node encoder and the empty builder.
use std::io::{self, Write};

use fst::raw::verif as v;
use fst::raw::Builder;
use fst::Error;

use crate::c01_node::{any_node, to_builder_node, START};

pub struct FaultySink {
    pub fail_at: u8, // index of the failing call (write or flush); 255 = never
    pub zero: bool,  // failure kind: Ok(0) instead of Err
    pub kind: u8,
    pub calls: u8,
    pub fired: bool,
    pub accepted: u64,
}

fn kind_of(k: u8) -> io::ErrorKind {
    match k % 4 {
        0 => io::ErrorKind::Other,
        1 => io::ErrorKind::BrokenPipe,
        2 => io::ErrorKind::PermissionDenied,
        _ => io::ErrorKind::OutOfMemory,
    }
}

impl Write for FaultySink {
    fn write(&mut self, b: &[u8]) -> io::Result<usize> {
        let me = self.calls;
        self.calls += 1;
        if me == self.fail_at {
            self.fired = true;
            if self.zero {
                return Ok(0);
            }
            return Err(kind_of(self.kind).into());
        }
        self.accepted += b.len() as u64;
        Ok(b.len())
    }
    fn flush(&mut self) -> io::Result<()> {
        let me = self.calls;
        self.calls += 1;
        if me == self.fail_at && !self.zero {
            self.fired = true;
            return Err(kind_of(self.kind).into());
        }
        Ok(())
    }
}

fn any_sink(max_calls: u8) -> FaultySink {
    let fail_at: u8 = kani::any();
    kani::assume(fail_at <= max_calls || fail_at == 255);
    FaultySink { fail_at, zero: kani::any(), kind: kani::any(), calls: 0, fired: false, accepted: 0 }
}

/// u64/u32 writers and pack_uint_in: Err iff the fault fired; never panic.
#[kani::proof]
#[kani::unwind(10)]
fn c11_primitives() {
    let mut s = any_sink(3);
    let n: u64 = kani::any();
    let w: u8 = kani::any();
    kani::assume(w >= v::pack_size(n) && w <= 8);
    let r1 = v::io_write_u64_le(n, &mut s);
    let e1 = r1.is_err();
    core::mem::forget(r1);
    assert!(e1 == s.fired, "u64 writer: error iff the sink failed");
    if !s.fired {
        let r2 = v::pack_uint_in(&mut s, n, w);
        let e2 = r2.is_err();
        core::mem::forget(r2);
        assert!(e2 == s.fired, "pack_uint_in: error iff the sink failed");
    }
    if !s.fired {
        let r3 = v::io_write_u32_le(n as u32, &mut s);
        let e3 = r3.is_err();
        core::mem::forget(r3);
        assert!(e3 == s.fired, "u32 writer: error iff the sink failed");
    }
    kani::cover!(s.fired && s.zero, "a zero-length write was injected");
    kani::cover!(s.fired && !s.zero, "an error return was injected");
    kani::cover!(!s.fired, "no fault");
}

/// The counting writer passes failures through and does not count them.
#[kani::proof]
#[kani::unwind(10)]
fn c11_counting_writer() {
    let s = any_sink(2);
    let mut w = v::CountingWriter::new(s);
    let d: [u8; 3] = kani::any();
    let r = w.write_all(&d);
    let e = r.is_err();
    core::mem::forget(r);
    assert!(e == w.get_ref().fired, "write_all through the counting writer: error iff the sink failed");
    assert!(w.count() == w.get_ref().accepted, "count differs from accepted bytes after a fault");
    let f = w.flush();
    let fe = f.is_err();
    core::mem::forget(f);
    if !e {
        assert!(fe == w.get_ref().fired);
    }
    core::mem::forget(w);
}

/// The node encoder over the faulty sink, any node with T transitions.
fn encoder<const T: usize>() {
    let n = any_node::<T>();
    let bn = to_builder_node(&n);
    let mut s = any_sink(12);
    let r = bn.compile_to(&mut s, n.last_addr, START);
    let e = r.is_err();
    core::mem::forget(r);
    assert!(e == s.fired, "node encoder: error iff the sink failed (never silent success)");
    kani::cover!(s.fired, "a fault fired inside the encoder");
    kani::cover!(!s.fired, "encoder completed");
    core::mem::forget(bn);
}

#[kani::proof]
#[kani::unwind(10)]
fn c11_encoder_t0() {
    encoder::<0>();
}

#[kani::proof]
#[kani::unwind(10)]
fn c11_encoder_t1() {
    encoder::<1>();
}

#[kani::proof]
#[kani::unwind(10)]
fn c11_encoder_t2() {
    encoder::<2>();
}

/// Builder::new_type and into_inner (empty FST) over the faulty sink,
/// including the final flush.
#[kani::proof]
#[kani::unwind(10)]
fn c11_builder_empty() {
    let s = any_sink(9);
    let fail_at = s.fail_at;
    let zero = s.zero;
    match Builder::verif_new_type_with_cache(s, 0, 0, 0) {
        Err(Error::Io(e)) => {
            core::mem::forget(e);
            assert!(fail_at < 2, "Builder::new failed although no header write failed");
        }
        Err(e) => {
            core::mem::forget(e);
            assert!(false, "a sink failure must surface as Error::Io");
        }
        Ok(b) => {
            assert!(fail_at >= 2, "Builder::new succeeded although a header write failed");
            assert!(b.bytes_written() == 16);
            match b.into_inner() {
                Ok(s) => {
                    // header 2 writes, root node 3, footer 3, then 1 flush = calls 0..=8
                    assert!(!s.fired, "build reported as finished although the sink failed");
                    assert!(s.accepted == 39, "build reported as finished although not every byte was accepted");
                    assert!(fail_at > 8 || (zero && fail_at == 8));
                    core::mem::forget(s);
                }
                Err(Error::Io(e)) => {
                    core::mem::forget(e);
                    assert!(fail_at <= 8, "finish failed without an injected fault");
                }
                Err(e) => {
                    core::mem::forget(e);
                    assert!(false, "a sink failure must surface as Error::Io");
                }
            }
        }
    }
}

/// Builder::new alone over the faulty sink (the two header writes).
#[kani::proof]
#[kani::unwind(10)]
fn c11_builder_new() {
    let s = any_sink(3);
    let fail_at = s.fail_at;
    match Builder::verif_new_type_with_cache(s, 0, 0, 0) {
        Err(Error::Io(e)) => {
            core::mem::forget(e);
            assert!(fail_at < 2, "Builder::new failed although no header write failed");
        }
        Err(e) => {
            core::mem::forget(e);
            assert!(false, "a sink failure must surface as Error::Io");
        }
        Ok(b) => {
            assert!(fail_at >= 2, "Builder::new succeeded although a header write failed");
            assert!(b.bytes_written() == 16 && b.get_ref().accepted == 16);
            core::mem::forget(b);
        }
    }
}

#[kani::proof]
#[kani::unwind(10)]
fn c11_twin_must_fail() {
    let mut s = any_sink(3);
    let r = v::io_write_u64_le(7, &mut s);
    let ok = r.is_ok();
    core::mem::forget(r);
    assert!(ok, "twin: a fault must be able to fire");
}
