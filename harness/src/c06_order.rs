//! C06: the ordering contract as an inductive step over the only state the
//! check reads (`last`). Real `Builder` (cache 0x0 so construction is cheap),
//! driven through the guarded `verif_check_last_key` wrapper, which forwards
//! to the private `check_last_key` used by `add` (check_dupe=false) and
//! `insert` (check_dupe=true).
use fst::raw::Builder;
use fst::raw::Error as RawError;
use fst::Error;

use crate::util::ArraySink;

#[derive(Clone, Copy, PartialEq, Eq)]
enum Want {
    Ok,
    Dup,
    Ooo,
}

fn lt(a: &[u8], b: &[u8]) -> bool {
    // lexicographic a < b, explicit and bounded
    let mut i = 0;
    while i < a.len() && i < b.len() {
        if a[i] != b[i] {
            return a[i] < b[i];
        }
        i += 1;
    }
    a.len() < b.len()
}

fn eq(a: &[u8], b: &[u8]) -> bool {
    if a.len() != b.len() {
        return false;
    }
    let mut i = 0;
    while i < a.len() {
        if a[i] != b[i] {
            return false;
        }
        i += 1;
    }
    true
}

fn rule(last: &[u8], k: &[u8], map: bool) -> Want {
    if map && eq(k, last) {
        Want::Dup
    } else if lt(k, last) {
        Want::Ooo
    } else {
        Want::Ok
    }
}

/// Returns what the real code did, checking the error payloads on the way.
fn classify(r: Result<(), Error>, last: &[u8], k: &[u8]) -> Want {
    match r {
        Ok(()) => Want::Ok,
        Err(Error::Fst(RawError::DuplicateKey { got })) => {
            assert!(eq(&got, k), "DuplicateKey carries the offending key");
            core::mem::forget(got);
            Want::Dup
        }
        Err(Error::Fst(RawError::OutOfOrder { previous, got })) => {
            assert!(eq(&got, k), "OutOfOrder.got is the offending key");
            assert!(eq(&previous, last), "OutOfOrder.previous is the last accepted key");
            core::mem::forget(got);
            core::mem::forget(previous);
            Want::Ooo
        }
        Err(e) => {
            core::mem::forget(e);
            assert!(false, "unexpected error variant from the ordering check");
            Want::Ok
        }
    }
}

fn step<const LP: usize, const LK: usize, const LK2: usize>(map: bool) {
    let p: [u8; LP] = kani::any();
    let k: [u8; LK] = kani::any();
    let k2: [u8; LK2] = kani::any();
    let b = Builder::verif_new_type_with_cache(ArraySink::<16>::new(0), 0, 0, 0);
    let mut b = match b {
        Ok(b) => b,
        Err(e) => {
            core::mem::forget(e);
            assert!(false);
            return;
        }
    };
    // first key: always accepted (nothing precedes it)
    let r0 = b.verif_check_last_key(&p, map);
    assert!(classify(r0, &[], &p) == Want::Ok, "the first key is always accepted");
    // second call: the rule
    let r1 = b.verif_check_last_key(&k, map);
    let got1 = classify(r1, &p, &k);
    let want1 = rule(&p, &k, map);
    assert!(got1 == want1, "accept/reject decision differs from the ordering contract");
    // third call: after a rejection the builder behaves as if the call never
    // happened; after acceptance the new key is the last one
    let r2 = b.verif_check_last_key(&k2, map);
    if want1 == Want::Ok {
        let got2 = classify(r2, &k, &k2);
        assert!(got2 == rule(&k, &k2, map), "state after an accepted key");
    } else {
        let got2 = classify(r2, &p, &k2);
        assert!(got2 == rule(&p, &k2, map), "a rejected insert left a trace in the ordering state");
    }
    kani::cover!((LK == 0 && LP > 0) || want1 == Want::Ok);
    kani::cover!(LP == 0 || want1 == Want::Ooo);
    core::mem::forget(b);
}

macro_rules! order_step {
    ($name:ident, $lp:expr, $lk:expr, $lk2:expr, $map:expr) => {
        #[kani::proof]
        #[kani::unwind(10)]
        fn $name() {
            step::<$lp, $lk, $lk2>($map);
        }
    };
}

order_step!(c06_step_map_111, 1, 1, 1, true);
order_step!(c06_step_map_121, 1, 2, 1, true);
order_step!(c06_step_map_212, 2, 1, 2, true);
order_step!(c06_step_map_222, 2, 2, 2, true);
order_step!(c06_step_map_011, 0, 1, 1, true);
order_step!(c06_step_map_101, 1, 0, 1, true);
order_step!(c06_step_map_020, 0, 2, 0, true);
order_step!(c06_step_set_111, 1, 1, 1, false);
order_step!(c06_step_set_122, 1, 2, 2, false);
order_step!(c06_step_set_221, 2, 2, 1, false);
order_step!(c06_step_set_222, 2, 2, 2, false);
order_step!(c06_step_set_010, 0, 1, 0, false);
order_step!(c06_step_set_100, 1, 0, 0, false);

/// Vacuity twin.
#[kani::proof]
#[kani::unwind(10)]
fn c06_twin_must_fail() {
    let p: [u8; 1] = kani::any();
    let k: [u8; 1] = kani::any();
    if let Ok(mut b) = Builder::verif_new_type_with_cache(ArraySink::<16>::new(0), 0, 0, 0) {
        let r0 = b.verif_check_last_key(&p, true);
        core::mem::forget(r0);
        let r1 = b.verif_check_last_key(&k, true);
        let ok = r1.is_ok();
        core::mem::forget(r1);
        assert!(ok, "twin: some second key must be rejected");
        core::mem::forget(b);
    }
}
