//! C08 at file level: a file that opens and verifies, with one byte (or a
//! burst) altered, never both opens and verifies; the real builder's trailer
//! is the masked CRC of everything before it.
use fst::raw::{Builder, Fst};

use crate::util::{crc_ref, mask_ref, ArraySink};

fn opens_and_verifies(bs: &[u8]) -> bool {
    match Fst::new(bs) {
        Ok(f) => match f.verify() {
            Ok(()) => true,
            Err(e) => {
                core::mem::forget(e);
                false
            }
        },
        Err(e) => {
            core::mem::forget(e);
            false
        }
    }
}

fn mutation<const N: usize>() {
    let orig: [u8; N] = crate::util::sym_bytes::<N>();
    kani::assume(opens_and_verifies(&orig));
    let pos: usize = kani::any();
    kani::assume(pos < N);
    let val: u8 = kani::any();
    kani::assume(val != orig[pos]);
    let mut m = orig;
    m[pos] = val;
    assert!(!opens_and_verifies(&m), "a corrupted file is certified as valid");
    kani::cover!(pos < N - 4, "corruption in the checksummed region");
    kani::cover!(pos >= N - 4, "corruption in the trailer");
}

#[kani::proof]
#[kani::unwind(21)]
fn c08_mutation_36() {
    mutation::<36>();
}

#[kani::proof]
#[kani::unwind(21)]
fn c08_mutation_37() {
    mutation::<37>();
}

/// Real builder, empty FST, real CRC: the last 4 bytes are the masked
/// reference CRC of the rest, and the result verifies.
#[kani::proof]
#[kani::unwind(37)]
fn c08_builder_trailer_empty() {
    let ty: u64 = kani::any();
    let b = match Builder::verif_new_type_with_cache(ArraySink::<40>::new(0), ty, 0, 0) {
        Ok(b) => b,
        Err(e) => {
            core::mem::forget(e);
            assert!(false);
            return;
        }
    };
    match b.into_inner() {
        Ok(sink) => {
            assert!(sink.pos == 39);
            let want = mask_ref(crc_ref(0, &sink.buf[..35]));
            let got = u32::from_le_bytes([sink.buf[35], sink.buf[36], sink.buf[37], sink.buf[38]]);
            assert!(got == want, "trailer is not the masked CRC-32C of the preceding bytes");
            assert!(opens_and_verifies(&sink.buf[..39]), "a built FST does not verify");
        }
        Err(e) => {
            core::mem::forget(e);
            assert!(false);
        }
    }
}

/// verify() is exactly "stored trailer == masked checksum of everything before
/// it" on arbitrary bytes that open (version 3): no other field of the file can
/// switch the check off or on. Both sides use the crate's checksummer (its
/// equality with CRC-32C is the subject of the c08_crc lemmas), so the solver
/// compares two structurally equal circuits.
fn verify_iff_trailer<const N: usize>() {
    use fst::raw::verif as v;
    let buf: [u8; N] = crate::util::sym_bytes::<N>();
    // version 3 in the header: the file carries a checksum
    kani::assume(buf[0] == 3 && buf[1] == 0 && buf[2] == 0 && buf[3] == 0 && buf[4] == 0 && buf[5] == 0 && buf[6] == 0 && buf[7] == 0);
    match Fst::new(&buf[..]) {
        Ok(f) => {
            let mut s = v::CheckSummer::new();
            s.update(&buf[..N - 4]);
            let stored = u32::from_le_bytes([buf[N - 4], buf[N - 3], buf[N - 2], buf[N - 1]]);
            let want_ok = s.masked() == stored;
            let got_ok = match f.verify() {
                Ok(()) => true,
                Err(e) => {
                    core::mem::forget(e);
                    false
                }
            };
            assert!(got_ok == want_ok, "verify() does not decide by the trailing checksum alone");
            kani::cover!(got_ok, "some input verifies");
            kani::cover!(!got_ok, "some input does not verify");
            core::mem::forget(f);
        }
        Err(e) => core::mem::forget(e),
    }
}

#[kani::proof]
#[kani::unwind(42)]
fn c08_verify_iff_trailer_40() {
    verify_iff_trailer::<40>();
}

#[kani::proof]
#[kani::unwind(42)]
fn c08_verify_iff_trailer_36() {
    verify_iff_trailer::<36>();
}
