//! C09 (codec level): the bytes the real encoder writes for an arbitrary node
//! are read back by an *independent* decoder written from the documented
//! layout only (shared/layout.rs; shares no code with the crate), and the
//! header/footer of the real builder follow the documented layout.
use fst::raw::Builder;

use crate::c01_node::{any_node, encode_sink, BUF, START};
use crate::layout::{decode_head, decode_trans, Form};
use crate::util::ArraySink;

fn layout<const T: usize>() {
    let n = any_node::<T>();
    let mut sink = ArraySink::<BUF>::new(START);
    let written = encode_sink(&n, &mut sink);
    if T == 0 && n.is_final && n.final_output == 0 {
        assert!(written == 0, "the empty final node must not be emitted");
        return;
    }
    let addr = START + written - 1;
    let h = decode_head(&sink.buf, addr, 3);
    assert!(h.start == START, "node extent: first byte");
    assert!(h.addr == addr);
    assert!(h.is_final == n.is_final, "finality bit");
    assert!(h.ntrans == T, "transition count");
    assert!(h.final_output == n.final_output, "final output");
    let mut i = 0;
    while i < T {
        let (inp, out, tgt) = decode_trans(&sink.buf, &h, i);
        assert!(inp == n.inp[i], "input byte (reverse storage order)");
        assert!(out == n.out[i], "transition output");
        assert!(tgt == n.addr[i], "target = node start - delta; delta 0 = empty final");
        i += 1;
    }
    // documented form selection
    if T == 1 && !n.is_final {
        if n.addr[0] == n.last_addr && n.out[0] == 0 {
            assert!(h.form == Form::OneTransNext);
        } else {
            assert!(h.form == Form::OneTrans);
        }
    } else {
        assert!(h.form == Form::AnyTrans);
    }
    kani::cover!(true, "end of harness reached");
}

#[kani::proof]
#[kani::unwind(9)]
fn c09_layout_t0() {
    layout::<0>();
}
#[kani::proof]
#[kani::unwind(9)]
fn c09_layout_t1() {
    layout::<1>();
}
#[kani::proof]
#[kani::unwind(9)]
fn c09_layout_t2() {
    layout::<2>();
}
#[kani::proof]
#[kani::unwind(9)]
fn c09_layout_t3() {
    layout::<3>();
}

/// Header and footer of the real builder, any type value, empty FST.
#[kani::proof]
#[kani::unwind(33)]
fn c09_header_footer_empty() {
    let ty: u64 = kani::any();
    let b = match Builder::verif_new_type_with_cache(ArraySink::<40>::new(0), ty, 0, 0) {
        Ok(b) => b,
        Err(e) => {
            core::mem::forget(e);
            assert!(false);
            return;
        }
    };
    assert!(b.bytes_written() == 16);
    match b.into_inner() {
        Ok(sink) => {
            // 16 header + 3-byte non-final root without transitions + 20 footer
            assert!(sink.pos == 39, "empty FST is 39 bytes");
            let rd = |at: usize| {
                let mut v = 0u64;
                let mut i = 0;
                while i < 8 {
                    v |= (sink.buf[at + i] as u64) << (8 * i as u32);
                    i += 1;
                }
                v
            };
            assert!(rd(0) == 3, "header: version 3");
            assert!(rd(8) == ty, "header: requested type");
            assert!(sink.buf[16] == 0 && sink.buf[17] == 0 && sink.buf[18] == 0,
                    "root: any-trans form, no sizes, explicit count byte 0, non-final");
            assert!(rd(19) == 0, "footer: key count");
            assert!(rd(27) == 18, "footer: root address = last byte of the root node");
        }
        Err(e) => {
            core::mem::forget(e);
            assert!(false);
        }
    }
}

/// Header only (cheap): what Builder::new_type has written before any key.
#[kani::proof]
#[kani::unwind(10)]
fn c09_header() {
    let ty: u64 = kani::any();
    match Builder::verif_new_type_with_cache(ArraySink::<16>::new(0), ty, 0, 0) {
        Ok(b) => {
            assert!(b.bytes_written() == 16);
            let buf = &b.get_ref().buf;
            let v = u64::from_le_bytes([buf[0], buf[1], buf[2], buf[3], buf[4], buf[5], buf[6], buf[7]]);
            let t = u64::from_le_bytes([buf[8], buf[9], buf[10], buf[11], buf[12], buf[13], buf[14], buf[15]]);
            assert!(v == 3, "header: version 3");
            assert!(t == ty, "header: requested type");
            core::mem::forget(b);
        }
        Err(e) => {
            core::mem::forget(e);
            assert!(false);
        }
    }
}

#[kani::proof]
#[kani::unwind(9)]
fn c09_twin_must_fail() {
    let n = any_node::<1>();
    let mut sink = ArraySink::<BUF>::new(START);
    let written = encode_sink(&n, &mut sink);
    let h = decode_head(&sink.buf, START + written - 1, 3);
    assert!(h.form != Form::OneTransNext, "twin: the one-trans-next form must be reachable");
}
