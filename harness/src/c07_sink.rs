//! C07: `CountingWriter` under every write schedule. The inner sink returns
//! `Interrupted` or accepts a fresh symbolic non-empty prefix on every call
//! and itself counts and checksums (bitwise reference CRC) exactly what it
//! accepted. After `write_all` through the counting writer: Ok, count ==
//! bytes accepted, checksum == checksum of the accepted bytes. One inductive
//! step from an arbitrary prior (count, checksum) state.
use std::io::{self, Write};

use fst::raw::verif as v;

use crate::util::{crc_ref_byte, mask_ref};

pub struct ChunkySink {
    pub accepted: u64,
    pub sum: u32, // external CRC state of accepted bytes (reference, bitwise)
    pub interrupts_left: u8,
    pub calls: u8,
    pub short_writes: u8,
}

impl Write for ChunkySink {
    fn write(&mut self, b: &[u8]) -> io::Result<usize> {
        self.calls += 1;
        if b.is_empty() {
            return Ok(0);
        }
        if self.interrupts_left > 0 && kani::any() {
            self.interrupts_left -= 1;
            return Err(io::ErrorKind::Interrupted.into());
        }
        let n: usize = kani::any();
        kani::assume(n >= 1 && n <= b.len());
        if n < b.len() {
            self.short_writes += 1;
        }
        let mut i = 0;
        while i < n {
            self.sum = crc_ref_byte(self.sum, b[i]);
            i += 1;
        }
        self.accepted += n as u64;
        Ok(n)
    }
    fn flush(&mut self) -> io::Result<()> {
        Ok(())
    }
}

fn step<const L: usize>(interrupts: u8) {
    let data: [u8; L] = crate::util::sym_bytes::<L>();
    let cnt0: u64 = kani::any();
    kani::assume(cnt0 < (1u64 << 40));
    let sum0: u32 = kani::any();
    let sink = ChunkySink { accepted: cnt0, sum: sum0, interrupts_left: interrupts, calls: 0, short_writes: 0 };
    let mut w = v::CountingWriter::verif_resume(sink, cnt0, sum0);
    let r = w.write_all(&data);
    match r {
        Ok(()) => {}
        Err(e) => {
            core::mem::forget(e);
            assert!(false, "write_all failed although the sink never fails");
        }
    }
    assert!(w.get_ref().accepted == cnt0 + L as u64, "sink did not receive every byte");
    assert!(w.count() == w.get_ref().accepted, "bytes_written differs from the bytes the sink accepted");
    assert!(w.verif_sum_state() == w.get_ref().sum, "checksum covers bytes the sink did not accept (or misses some)");
    assert!(w.masked_checksum() == mask_ref(w.get_ref().sum));
    kani::cover!(L < 2 || w.get_ref().short_writes > 0, "a short write happened");
    kani::cover!(w.get_ref().calls as usize >= L, "one byte per call");
    kani::cover!(w.get_ref().interrupts_left == 0, "every allowed Interrupted return happened");
    core::mem::forget(w);
}

macro_rules! cw_step {
    ($name:ident, $l:expr, $i:expr, $u:expr) => {
        #[kani::proof]
        #[kani::unwind($u)]
        fn $name() {
            step::<$l>($i);
        }
    };
}
// unwind = max(L + interrupts (write_all retries), 8 (crc bit loop), L (copy)) + 1
cw_step!(c07_step_len1_i1, 1, 1, 10);
cw_step!(c07_step_len2_i1, 2, 1, 10);
cw_step!(c07_step_len3_i1, 3, 1, 10);
cw_step!(c07_step_len4_i0, 4, 0, 10);
cw_step!(c07_step_len4_i2, 4, 2, 10);
cw_step!(c07_step_len8_i0, 8, 0, 10);

/// The emission primitives all go through `write_all`: u64/u32 LE writers and
/// `pack_uint_in` over the chunky sink produce the same count/checksum as the
/// accepted bytes (composition with the step above).
#[kani::proof]
#[kani::unwind(10)]
fn c07_primitives_u32() {
    let n: u32 = kani::any();
    let sum0: u32 = kani::any();
    let sink = ChunkySink { accepted: 0, sum: sum0, interrupts_left: 1, calls: 0, short_writes: 0 };
    let mut w = v::CountingWriter::verif_resume(sink, 0, sum0);
    let r = v::io_write_u32_le(n, &mut w);
    assert!(r.is_ok());
    core::mem::forget(r);
    assert!(w.count() == 4 && w.get_ref().accepted == 4);
    assert!(w.verif_sum_state() == w.get_ref().sum);
    // the bytes are the little-endian encoding regardless of the schedule
    let mut want = sum0;
    let le = n.to_le_bytes();
    let mut i = 0;
    while i < 4 {
        want = crc_ref_byte(want, le[i]);
        i += 1;
    }
    assert!(w.get_ref().sum == want, "bytes received by the sink are not the LE encoding");
    kani::cover!(w.get_ref().short_writes > 0);
    core::mem::forget(w);
}

/// The LE writers and pack_uint_in hand write_all exactly the little-endian
/// bytes (all-accepting sink; composition with the step lemma above).
#[kani::proof]
#[kani::unwind(10)]
fn c07_primitives_le_bytes() {
    let n: u64 = kani::any();
    let w: u8 = kani::any();
    kani::assume(w >= v::pack_size(n) && w <= 8);
    let mut s = crate::util::ArraySink::<24>::new(0);
    let r1 = v::io_write_u64_le(n, &mut s);
    let r2 = v::io_write_u32_le(n as u32, &mut s);
    let r3 = v::pack_uint_in(&mut s, n, w);
    assert!(r1.is_ok() && r2.is_ok() && r3.is_ok());
    core::mem::forget((r1, r2, r3));
    let le = n.to_le_bytes();
    let mut i = 0;
    while i < 8 {
        assert!(s.buf[i] == le[i]);
        if i < 4 {
            assert!(s.buf[8 + i] == le[i]);
        }
        if i < w as usize {
            assert!(s.buf[12 + i] == le[i]);
        }
        i += 1;
    }
    assert!(s.pos == 12 + w as usize);
}

#[kani::proof]
#[kani::unwind(10)]
fn c07_twin_must_fail() {
    let data: [u8; 2] = kani::any();
    let sink = ChunkySink { accepted: 0, sum: 0, interrupts_left: 1, calls: 0, short_writes: 0 };
    let mut w = v::CountingWriter::verif_resume(sink, 0, 0);
    let r = w.write_all(&data);
    core::mem::forget(r);
    assert!(w.get_ref().short_writes == 0, "twin: a short write must be possible");
    core::mem::forget(w);
}

/// A sink that accepts at most `cap` bytes per call (cap symbolic, >= 1) and
/// stores what it accepted.
pub struct CapSink<const N: usize> {
    pub buf: [u8; N],
    pub pos: usize,
    pub cap: usize,
    pub short: bool,
}

impl<const N: usize> Write for CapSink<N> {
    fn write(&mut self, b: &[u8]) -> io::Result<usize> {
        let mut i = 0;
        while i < b.len() && i < self.cap && self.pos < N {
            self.buf[self.pos] = b[i];
            self.pos += 1;
            i += 1;
        }
        if i < b.len() {
            self.short = true;
        }
        Ok(i)
    }
    fn flush(&mut self) -> io::Result<()> {
        Ok(())
    }
}

/// The node encoder hands every byte to the sink whatever the per-call cap:
/// bytes received under a capped sink == bytes received by an all-accepting
/// sink (any emission that used `write` instead of `write_all` loses bytes).
fn encoder_capped<const T: usize>() {
    use crate::c01_node::{any_node, to_builder_node, START};
    let n = any_node::<T>();
    let bn = to_builder_node(&n);
    let mut full = crate::util::ArraySink::<24>::new(0);
    let r1 = bn.compile_to(&mut full, n.last_addr, START);
    assert!(r1.is_ok());
    core::mem::forget(r1);
    let cap: usize = kani::any();
    kani::assume(cap >= 1 && cap <= 8);
    let mut capped = CapSink::<24> { buf: [0u8; 24], pos: 0, cap, short: false };
    let r2 = bn.compile_to(&mut capped, n.last_addr, START);
    assert!(r2.is_ok(), "encoder failed although the sink only shortened writes");
    core::mem::forget(r2);
    assert!(capped.pos == full.pos, "bytes were lost under short writes");
    let mut i = 0;
    while i < 24 {
        if i < full.pos {
            assert!(capped.buf[i] == full.buf[i], "different bytes under short writes");
        }
        i += 1;
    }
    kani::cover!(capped.short, "a short write happened");
    core::mem::forget(bn);
}

#[kani::proof]
#[kani::unwind(25)]
fn c07_encoder_capped_t1() {
    encoder_capped::<1>();
}

#[kani::proof]
#[kani::unwind(25)]
fn c07_encoder_capped_t2() {
    encoder_capped::<2>();
}
