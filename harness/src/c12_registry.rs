//! C12 (mechanism): the real Registry, one step from a symbolic small state.
//! Soundness: Found(a) only for a node equal to one inserted with address a.
//! Completeness: as long as no occupied cell had to be overwritten, every
//! inserted node is found again.
use fst::raw::verif as v;
use fst::raw::{Output, Transition};

#[derive(Clone, Copy)]
struct N1 {
    is_final: bool,
    fo: u64,
    inp: u8,
    out: u64,
    addr: usize,
}

fn any_n1() -> N1 {
    let n = N1 { is_final: kani::any(), fo: kani::any(), inp: kani::any(), out: kani::any(), addr: kani::any() };
    kani::assume(n.is_final || n.fo == 0);
    n
}

fn same_t(a: &N1, b: &N1, t: usize) -> bool {
    a.is_final == b.is_final
        && a.fo == b.fo
        && (t == 0 || (a.inp == b.inp && a.out == b.out && a.addr == b.addr))
}

fn bn(n: &N1, t: usize) -> v::BuilderNode {
    let mut trans = Vec::with_capacity(1);
    if t == 1 {
        trans.push(Transition { inp: n.inp, out: Output::new(n.out), addr: n.addr });
    }
    v::BuilderNode { is_final: n.is_final, final_output: Output::new(n.fo), trans }
}

/// returns Some(addr) if found; inserts `addr` on miss
fn lookup_or_insert(r: &mut v::Registry, n: &N1, t: usize, addr: usize) -> Option<usize> {
    let node = bn(n, t);
    let res = match r.entry(&node) {
        v::RegistryEntry::Found(a) => Some(a),
        v::RegistryEntry::NotFound(cell) => {
            cell.insert(addr);
            None
        }
        v::RegistryEntry::Rejected => {
            assert!(false, "Rejected from a non-empty table");
            None
        }
    };
    core::mem::forget(node);
    res
}

/// rows x cols table, `t` transitions per node (concrete), two inserts + query
fn step(rows: usize, cols: usize, t: usize) {
    let same = |a: &N1, b: &N1| same_t(a, b, t);
    let mut r = v::Registry::new(rows, cols);
    let a = any_n1();
    let b = any_n1();
    let q = any_n1();
    let (aa, ab): (usize, usize) = (kani::any(), kani::any());
    // addresses handed out by the builder are >= 16 and distinct
    kani::assume(aa >= 16 && ab >= 16 && aa != ab);
    let ra = lookup_or_insert(&mut r, &a, t, aa);
    assert!(ra.is_none(), "found in an empty registry");
    let rb = lookup_or_insert(&mut r, &b, t, ab);
    if same(&a, &b) {
        assert!(rb == Some(aa), "an equal node is not shared although nothing was evicted");
    } else {
        assert!(rb.is_none(), "Found for a node that was never inserted");
    }
    let rq = lookup_or_insert(&mut r, &q, t, 99);
    // soundness
    match rq {
        Some(x) => {
            assert!((same(&q, &a) && x == aa) || (same(&q, &b) && !same(&a, &b) && x == ab),
                    "Found returns an address that does not belong to an equal node");
        }
        None => {
            // completeness when nothing can have been evicted: with one row and
            // two columns, two inserts fit; with a single cell the second
            // distinct insert evicts the first
            if rows == 1 && cols >= 2 {
                assert!(!same(&q, &a) && !same(&q, &b), "an inserted node is not found although the cache had room");
            } else if rows == 1 && cols == 1 {
                assert!(!same(&q, &b), "the most recently inserted node is not found");
            }
        }
    }
    kani::cover!(rq.is_some(), "query hit");
    kani::cover!(rq.is_none(), "query miss");
    core::mem::forget(r);
}

#[kani::proof]
#[kani::unwind(4)]
fn c12_step_1x1_t1() {
    step(1, 1, 1);
}

#[kani::proof]
#[kani::unwind(4)]
fn c12_step_1x1_t0() {
    step(1, 1, 0);
}

#[kani::proof]
#[kani::unwind(4)]
fn c12_step_1x2_t1() {
    step(1, 2, 1);
}

#[kani::proof]
#[kani::unwind(4)]
fn c12_step_1x2_t0() {
    step(1, 2, 0);
}

#[kani::proof]
#[kani::unwind(5)]
fn c12_step_1x3_t0() {
    step(1, 3, 0);
}

/// Hits must not disturb the other resident entry: insert a, insert b, then two
/// lookups q1, q2 each equal to a or b (so nothing is ever evicted from the two
/// columns). Every lookup after the inserts is a hit with the right address -
/// in particular b is still resident after a hit on a promoted a out of the
/// older column, and vice versa.
fn hits_keep_residents(cols: usize, t: usize) {
    let mut r = v::Registry::new(1, cols);
    let a = any_n1();
    let b = any_n1();
    let (aa, ab): (usize, usize) = (kani::any(), kani::any());
    kani::assume(aa >= 16 && ab >= 16 && aa != ab);
    kani::assume(!same_t(&a, &b, t));
    let ra = lookup_or_insert(&mut r, &a, t, aa);
    assert!(ra.is_none(), "found in an empty registry");
    let rb = lookup_or_insert(&mut r, &b, t, ab);
    assert!(rb.is_none(), "Found for a node that was never inserted");
    let pick1: bool = kani::any();
    let pick2: bool = kani::any();
    let (q1, e1) = if pick1 { (a, aa) } else { (b, ab) };
    let (q2, e2) = if pick2 { (a, aa) } else { (b, ab) };
    let r1 = lookup_or_insert(&mut r, &q1, t, 97);
    assert!(r1 == Some(e1), "resident node not found (first lookup)");
    let r2 = lookup_or_insert(&mut r, &q2, t, 98);
    assert!(r2 == Some(e2), "a hit displaced the other resident node although nothing had to be evicted");
    let r3 = lookup_or_insert(&mut r, &q1, t, 99);
    assert!(r3 == Some(e1), "resident node lost after two hits");
    kani::cover!(pick1 && !pick2, "hit on the older column, then the other");
    core::mem::forget(r);
}

#[kani::proof]
#[kani::unwind(4)]
fn c12_hits_1x2_t0() {
    hits_keep_residents(2, 0);
}

#[kani::proof]
#[kani::unwind(5)]
fn c12_hits_1x3_t0() {
    hits_keep_residents(3, 0);
}

/// Multi-row tables: the bucket is chosen by `Registry::hash`, which the 1xN
/// harnesses never exercise. An equal node built independently (separate
/// allocation, different capacity) must land in the same row and be found; a
/// different node must never be reported as found. `rows` is concrete.
fn bn_cap(n: &N1, t: usize, cap: usize) -> v::BuilderNode {
    let mut trans = Vec::with_capacity(cap);
    if t == 1 {
        trans.push(Transition { inp: n.inp, out: Output::new(n.out), addr: n.addr });
    }
    v::BuilderNode { is_final: n.is_final, final_output: Output::new(n.fo), trans }
}

fn hash_step(rows: usize, cols: usize, t: usize) {
    let mut r = v::Registry::new(rows, cols);
    let a = any_n1();
    let q = any_n1();
    let aa: usize = kani::any();
    kani::assume(aa >= 16);
    let ra = lookup_or_insert(&mut r, &a, t, aa);
    assert!(ra.is_none(), "found in an empty registry");
    let node = bn_cap(&q, t, 3);
    let rq = match r.entry(&node) {
        v::RegistryEntry::Found(x) => Some(x),
        v::RegistryEntry::NotFound(_) => None,
        v::RegistryEntry::Rejected => {
            assert!(false, "Rejected from a non-empty table");
            None
        }
    };
    core::mem::forget(node);
    if same_t(&a, &q, t) {
        assert!(rq == Some(aa), "an equal node is hashed to another row: not shared although nothing was evicted");
    } else {
        assert!(rq.is_none(), "Found for a node that was never inserted");
    }
    kani::cover!(rq.is_some(), "query hit");
    kani::cover!(rq.is_none(), "query miss");
    core::mem::forget(r);
}

#[kani::proof]
#[kani::unwind(5)]
fn c12_hash_3x1_t1() {
    hash_step(3, 1, 1);
}

#[kani::proof]
#[kani::unwind(5)]
fn c12_hash_3x1_t0() {
    hash_step(3, 1, 0);
}

#[kani::proof]
#[kani::unwind(5)]
fn c12_hash_2x2_t1() {
    hash_step(2, 2, 1);
}

/// The empty table rejects; the empty final node is never looked up (the
/// builder maps it to address 0 before consulting the registry) - here only
/// the Rejected contract.
#[kani::proof]
#[kani::unwind(3)]
fn c12_empty_table_rejects() {
    let mut r = v::Registry::new(0, 0);
    let a = any_n1();
    let node = bn(&a, 0);
    match r.entry(&node) {
        v::RegistryEntry::Rejected => {}
        _ => assert!(false, "empty table must reject"),
    }
    core::mem::forget(node);
    core::mem::forget(r);
}

#[kani::proof]
#[kani::unwind(4)]
fn c12_twin_must_fail() {
    let mut r = v::Registry::new(1, 1);
    let a = any_n1();
    let q = any_n1();
    let _ = lookup_or_insert(&mut r, &a, 1, 16);
    let rq = lookup_or_insert(&mut r, &q, 1, 17);
    assert!(rq.is_none(), "twin: a hit must be possible");
    core::mem::forget(r);
}
