//! C01 / C09 (codec level): a fully symbolic BuilderNode through the real
//! encoder (`BuilderNode::compile_to`) and the real decoder (`Node::new` and
//! every accessor).
use fst::raw::verif as v;
use fst::raw::{Output, Transition};

pub const START: usize = 20; // node's first byte; targets range over [2, START) and 0
pub const BUF: usize = 72;

pub struct SymNode<const T: usize> {
    pub is_final: bool,
    pub final_output: u64,
    pub inp: [u8; T],
    pub out: [u64; T],
    pub addr: [usize; T],
    pub last_addr: usize,
}

/// Output-width class K: 0 = every output zero; 1..=8 = the widest output
/// needs exactly K bytes; 9 = unconstrained.
pub fn assume_width_class<const T: usize>(n: &SymNode<T>, k: u8) {
    if k == 9 {
        return;
    }
    let mut any = n.final_output != 0;
    let mut w = v::pack_size(n.final_output);
    let mut i = 0;
    while i < T {
        any = any || n.out[i] != 0;
        let wi = v::pack_size(n.out[i]);
        if wi > w {
            w = wi;
        }
        i += 1;
    }
    if k == 0 {
        kani::assume(!any);
    } else {
        kani::assume(any && w == k);
    }
}

pub fn any_node<const T: usize>() -> SymNode<T> {
    let is_final: bool = kani::any();
    let final_output: u64 = kani::any();
    // builder invariant: only final nodes carry a final output
    kani::assume(is_final || final_output == 0);
    let inp: [u8; T] = kani::any();
    let out: [u64; T] = kani::any();
    let addr: [usize; T] = kani::any();
    let mut i = 0;
    while i < T {
        if i + 1 < T {
            kani::assume(inp[i] < inp[i + 1]);
        }
        // a target is the shared empty-final sentinel or an earlier node
        kani::assume(addr[i] == v::EMPTY_ADDRESS || (addr[i] >= 2 && addr[i] < START));
        i += 1;
    }
    let last_addr: usize = kani::any();
    // builder invariant: the previously emitted node ends right before this
    // one starts (or nothing has been emitted yet: NONE_ADDRESS)
    kani::assume(last_addr == START - 1 || last_addr == v::NONE_ADDRESS);
    SymNode { is_final, final_output, inp, out, addr, last_addr }
}

pub fn to_builder_node<const T: usize>(n: &SymNode<T>) -> v::BuilderNode {
    let mut trans = Vec::with_capacity(T);
    let mut i = 0;
    while i < T {
        trans.push(Transition { inp: n.inp[i], out: Output::new(n.out[i]), addr: n.addr[i] });
        i += 1;
    }
    v::BuilderNode { is_final: n.is_final, final_output: Output::new(n.final_output), trans }
}

/// Encode with the real encoder into `buf` at START. Returns bytes written.
pub fn encode<const T: usize>(n: &SymNode<T>, buf: &mut [u8; BUF]) -> usize {
    let bn = to_builder_node(n);
    let written;
    {
        let mut w: &mut [u8] = &mut buf[START..];
        let before = w.len();
        let r = bn.compile_to(&mut w, n.last_addr, START);
        assert!(r.is_ok());
        written = before - w.len();
        core::mem::forget(r);
    }
    core::mem::forget(bn);
    written
}

/// Same, through the byte-loop array sink.
pub fn encode_sink<const T: usize>(n: &SymNode<T>, sink: &mut crate::util::ArraySink<BUF>) -> usize {
    let bn = to_builder_node(n);
    let before = sink.pos;
    let r = bn.compile_to(&mut *sink, n.last_addr, START);
    assert!(r.is_ok());
    core::mem::forget(r);
    core::mem::forget(bn);
    sink.pos - before
}

fn codec<const T: usize>(k: u8) {
    let n = any_node::<T>();
    assume_width_class(&n, k);
    let mut sink = crate::util::ArraySink::<BUF>::new(START);
    let written = encode_sink(&n, &mut sink);
    let buf = sink.buf;
    let trivial = T == 0 && n.is_final && n.final_output == 0;
    if trivial {
        // the empty final node is never emitted: it is address 0
        assert!(written == 0);
        return;
    }
    assert!(written >= 1);
    let addr = START + written - 1;
    let node = v::node_at(3, addr, &buf[..]);
    assert!(node.addr() == addr);
    assert!(node.is_final() == n.is_final);
    assert!(node.len() == T);
    assert!(node.is_empty() == (T == 0));
    assert!(node.final_output().value() == n.final_output);
    // the node occupies exactly [START, addr]
    assert!(node.as_slice().len() == written);
    let mut i = 0;
    while i < T {
        let t = node.transition(i);
        assert!(t.inp == n.inp[i]);
        assert!(t.out.value() == n.out[i]);
        assert!(t.addr == n.addr[i]);
        assert!(node.transition_addr(i) == n.addr[i]);
        i += 1;
    }
    // iteration order = ascending input order
    let mut it = node.transitions();
    let mut j = 0;
    while j < T {
        match it.next() {
            Some(t) => assert!(t.inp == n.inp[j] && t.out.value() == n.out[j] && t.addr == n.addr[j]),
            None => assert!(false),
        }
        j += 1;
    }
    assert!(it.next().is_none());
    // find_input for every byte
    let b: u8 = kani::any();
    let mut want: Option<usize> = None;
    let mut k = 0;
    while k < T {
        if n.inp[k] == b {
            want = Some(k);
        }
        k += 1;
    }
    assert!(node.find_input(b) == want);
    // form selection (documented): one-trans-next / one-trans / any-trans
    if T == 1 && !n.is_final {
        if n.addr[0] == n.last_addr && n.out[0] == 0 {
            assert!(node.state() == "OTN");
        } else {
            assert!(node.state() == "OT");
        }
    } else {
        assert!(node.state() == "AT");
    }
    kani::cover!(true, "end of harness reached");
}

#[kani::proof]
#[kani::unwind(9)]
fn c01_node_codec_t0() {
    codec::<0>(9);
}

#[kani::proof]
#[kani::unwind(9)]
fn c01_node_codec_t1() {
    codec::<1>(9);
}

#[kani::proof]
#[kani::unwind(9)]
fn c01_node_codec_t2() {
    codec::<2>(9);
}

#[kani::proof]
#[kani::unwind(9)]
fn c01_node_codec_t3() {
    codec::<3>(9);
}

/// Vacuity twin: the same construction must be able to reach the end.
#[kani::proof]
#[kani::unwind(9)]
fn c01_node_codec_t1_twin_must_fail() {
    let n = any_node::<1>();
    let mut buf = [0u8; BUF];
    let written = encode(&n, &mut buf);
    let node = v::node_at(3, START + written - 1, &buf[..]);
    assert!(node.len() != 1);
}

/// Address-delta codec for every pair of addresses (all widths 1..8).
#[kani::proof]
#[kani::unwind(9)]
fn c01_delta_roundtrip() {
    let node_addr: usize = kani::any();
    let trans_addr: usize = kani::any();
    kani::assume(trans_addr == v::EMPTY_ADDRESS || (trans_addr >= 2 && trans_addr < node_addr));
    let mut buf = [0u8; 8];
    let r = v::pack_delta(&mut buf[..], node_addr, trans_addr);
    let size = match r {
        Ok(s) => s,
        Err(e) => {
            core::mem::forget(e);
            assert!(false);
            return;
        }
    };
    assert!(size == v::pack_delta_size(node_addr, trans_addr));
    assert!(size >= 1 && size <= 8);
    let got = v::unpack_delta(&buf, size as usize, node_addr);
    assert!(got == trans_addr);
    kani::cover!(size == 8);
    kani::cover!(size == 3);
    kani::cover!(trans_addr == 0);
}

macro_rules! codec_k {
    ($name:ident, $t:expr, $k:expr) => {
        #[kani::proof]
        #[kani::unwind(9)]
        fn $name() {
            codec::<$t>($k);
        }
    };
}
codec_k!(c01_node_codec_t1_k0, 1, 0);
codec_k!(c01_node_codec_t1_k1, 1, 1);
codec_k!(c01_node_codec_t1_k8, 1, 8);
codec_k!(c01_node_codec_t2_k0, 2, 0);
codec_k!(c01_node_codec_t2_k8, 2, 8);
