//! Solver harnesses over the real `fst` code (path dependency on /repo).
//! Built only by `cargo kani` with RUSTFLAGS="--cfg burntsushi_fst_verif".
#![allow(dead_code, unused_imports, unused_macros, unused_variables)]

pub mod util;
#[path = "../../shared/format_table.rs"]
pub mod format_table;
#[path = "../../shared/layout.rs"]
pub mod layout;

#[cfg(kani)]
mod c01_pack;
#[cfg(kani)]
mod c01_node;
#[cfg(kani)]
mod c02_common;
#[cfg(kani)]
mod c06_order;
#[cfg(kani)]
mod c07_sink;
#[cfg(kani)]
mod c08_crc;
#[cfg(kani)]
mod c08_file;
#[cfg(kani)]
mod c09_layout;
#[cfg(kani)]
mod c10_open;
#[cfg(kani)]
mod c11_fault;
#[cfg(kani)]
mod c12_registry;
#[cfg(kani)]
mod c18_automata;
#[cfg(kani)]
mod generated;
