//! C10 (version gate) and C20 (totality) on arbitrary bytes.
use fst::raw::Error as RawError;
use fst::raw::Fst;
use fst::Error;

fn rd64(bs: &[u8], at: usize) -> u64 {
    let mut v = 0u64;
    let mut i = 0;
    while i < 8 {
        v |= (bs[at + i] as u64) << (8 * i as u32);
        i += 1;
    }
    v
}

/// Error classification of `Fst::new` for every byte string of length <= N.
fn classify<const N: usize>() {
    let buf: [u8; N] = crate::util::sym_bytes::<N>();
    let len: usize = kani::any();
    kani::assume(len <= N);
    let bs = &buf[..len];
    let version = if len >= 8 { rd64(bs, 0) } else { 0 };
    match Fst::new(bs) {
        Ok(f) => {
            assert!(len >= 32, "opened something shorter than any well-formed file");
            assert!(version >= 1 && version <= 3, "opened an unsupported version");
            assert!(version <= 2 || len >= 36, "opened a version-3 file shorter than 36 bytes");
            if version <= 2 {
                match f.verify() {
                    Err(Error::Fst(RawError::ChecksumMissing)) => {}
                    Ok(()) => assert!(false, "verify() certifies a file without checksum"),
                    Err(e) => {
                        core::mem::forget(e);
                        assert!(false, "verify(): wrong error for a version without checksum");
                    }
                }
            }
            kani::cover!(version == 1, "a version-1 file opens");
            kani::cover!(version == 2 && len < 36, "a short version-2 file opens");
            kani::cover!(version == 3, "a version-3 file opens");
            core::mem::forget(f);
        }
        Err(Error::Fst(RawError::Version { expected, got })) => {
            assert!(expected == 3);
            assert!(len >= 8 && got == version, "Version error carries the header's version");
            assert!(version == 0 || version > 3, "supported version rejected with a Version error");
        }
        Err(Error::Fst(RawError::Format { size })) => {
            assert!(size == len, "Format error carries the input length");
            // a supported version with at least its minimum length may still be
            // malformed (root address), but an unsupported version with enough
            // bytes to read it must be a Version error
            if len >= 36 {
                assert!(version >= 1 && version <= 3, "unsupported version reported as Format");
            }
        }
        Err(e) => {
            core::mem::forget(e);
            assert!(false, "unexpected error variant from Fst::new");
        }
    }
    // inputs shorter than the smallest well-formed file of their version
    if len < 32 {
        kani::cover!(true, "short input");
    }
}

#[kani::proof]
#[kani::unwind(42)]
fn c10_classify_40() {
    classify::<40>();
}

/// Shorter-than-minimum inputs are Format errors, per version (32 / 32 / 36).
#[kani::proof]
#[kani::unwind(38)]
fn c10_short_inputs() {
    let buf: [u8; 36] = crate::util::sym_bytes::<36>();
    let len: usize = kani::any();
    kani::assume(len < 36);
    let bs = &buf[..len];
    let version = if len >= 8 { rd64(bs, 0) } else { 0 };
    kani::assume(len < 32 || version == 3 || len < 8);
    match Fst::new(bs) {
        Ok(f) => {
            core::mem::forget(f);
            assert!(false, "input shorter than the smallest file of its version opens");
        }
        Err(Error::Fst(RawError::Format { size })) => assert!(size == len),
        Err(e) => {
            core::mem::forget(e);
            assert!(false, "short input must be a Format error");
        }
    }
}

/// Every version value with a full-length body: 0 and > 3 are Version errors.
#[kani::proof]
#[kani::unwind(42)]
fn c10_version_gate() {
    let mut buf: [u8; 40] = crate::util::sym_bytes::<40>();
    let version: u64 = kani::any();
    let le = version.to_le_bytes();
    let mut i = 0;
    while i < 8 {
        buf[i] = le[i];
        i += 1;
    }
    let len: usize = kani::any();
    kani::assume(len >= 36 && len <= 40);
    match Fst::new(&buf[..len]) {
        Ok(f) => {
            assert!(version >= 1 && version <= 3);
            core::mem::forget(f);
        }
        Err(Error::Fst(RawError::Version { expected, got })) => {
            assert!(expected == 3 && got == version);
            assert!(version == 0 || version > 3);
        }
        Err(e) => {
            assert!(version >= 1 && version <= 3, "unsupported version not reported as Version");
            core::mem::forget(e);
        }
    }
    kani::cover!(version == u64::MAX);
    kani::cover!(version == 4);
}

/// C20: open + accessors + verify never panic (CBMC's own checks are the
/// assertions: bounds, overflow, unwrap, pointer validity).
fn total<const N: usize>() {
    let buf: [u8; N] = crate::util::sym_bytes::<N>();
    let len: usize = kani::any();
    kani::assume(len <= N);
    match Fst::new(&buf[..len]) {
        Ok(f) => {
            let l = f.len();
            let e = f.is_empty();
            assert!(e == (l == 0));
            let _ty = f.fst_type();
            assert!(f.size() == len);
            assert!(f.as_bytes().len() == len);
            match f.verify() {
                Ok(()) => {
                    kani::cover!(true, "some input opens and verifies");
                }
                Err(e) => {
                    kani::cover!(true, "some input opens and does not verify");
                    core::mem::forget(e);
                }
            }
            core::mem::forget(f);
        }
        Err(e) => {
            kani::cover!(len >= 36, "a long input is rejected");
            core::mem::forget(e);
        }
    }
}

#[kani::proof]
#[kani::unwind(41)]
fn c20_open_total_40() {
    total::<40>();
}

#[kani::proof]
#[kani::unwind(49)]
fn c20_open_total_48() {
    total::<48>();
}

#[kani::proof]
#[kani::unwind(65)]
fn c20_open_total_64() {
    total::<64>();
}

/// Through Map::new / Set::new as well.
#[kani::proof]
#[kani::unwind(41)]
fn c20_map_set_total_40() {
    let buf: [u8; 40] = crate::util::sym_bytes::<40>();
    let len: usize = kani::any();
    kani::assume(len <= 40);
    match fst::Map::new(&buf[..len]) {
        Ok(m) => {
            let _ = m.len();
            let _ = m.is_empty();
            let r = m.as_fst().verify();
            core::mem::forget(r);
            core::mem::forget(m);
        }
        Err(e) => core::mem::forget(e),
    }
    match fst::Set::new(&buf[..len]) {
        Ok(m) => {
            let _ = m.len();
            let r = m.as_fst().verify();
            core::mem::forget(r);
            core::mem::forget(m);
        }
        Err(e) => core::mem::forget(e),
    }
}

#[kani::proof]
#[kani::unwind(41)]
fn c20_twin_must_fail() {
    let buf: [u8; 40] = crate::util::sym_bytes::<40>();
    match Fst::new(&buf[..]) {
        Ok(f) => {
            core::mem::forget(f);
            assert!(false, "twin: some 40-byte input must open");
        }
        Err(e) => core::mem::forget(e),
    }
}
