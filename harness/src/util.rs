//! Harness-side helpers: sinks, reference CRC-32C, symbolic byte arrays.
use std::io;

/// Bitwise CRC-32C (Castagnoli, reflected polynomial 0x82F63B78), one byte.
/// `state` is the *internal* register (already inverted).
#[inline]
pub fn crc_reg_step(mut reg: u32, b: u8) -> u32 {
    reg ^= b as u32;
    let mut k = 0;
    while k < 8 {
        reg = if reg & 1 == 1 { (reg >> 1) ^ 0x82F6_3B78 } else { reg >> 1 };
        k += 1;
    }
    reg
}

/// Reference: update the *external* (finalised) CRC value with one byte.
#[inline]
pub fn crc_ref_byte(sum: u32, b: u8) -> u32 {
    !crc_reg_step(!sum, b)
}

/// Reference CRC-32C over a slice from an external state.
pub fn crc_ref(mut sum: u32, bs: &[u8]) -> u32 {
    let mut i = 0;
    while i < bs.len() {
        sum = crc_ref_byte(sum, bs[i]);
        i += 1;
    }
    sum
}

#[inline]
pub fn mask_ref(sum: u32) -> u32 {
    sum.rotate_right(15).wrapping_add(0xA282_EAD8)
}

/// A sink writing into a fixed array; never fails unless full.
pub struct ArraySink<const N: usize> {
    pub buf: [u8; N],
    pub pos: usize,
}

impl<const N: usize> ArraySink<N> {
    pub fn new(pos: usize) -> Self {
        ArraySink { buf: [0u8; N], pos }
    }
}

impl<const N: usize> io::Write for ArraySink<N> {
    fn write(&mut self, b: &[u8]) -> io::Result<usize> {
        // the accepted length is computed up front (no data-dependent exit), so
        // that it stays a constant for the model checker when lengths are
        let room = N - self.pos;
        let n = if b.len() <= room { b.len() } else { room };
        let mut i = 0;
        while i < n {
            self.buf[self.pos + i] = b[i];
            i += 1;
        }
        self.pos += n;
        Ok(n)
    }
    /// Same bytes as the default `write_all` over `write` for a sink that
    /// accepts everything; a single loop keeps the model small.
    fn write_all(&mut self, b: &[u8]) -> io::Result<()> {
        let mut i = 0;
        while i < b.len() {
            if self.pos >= N {
                return Err(io::ErrorKind::WriteZero.into());
            }
            self.buf[self.pos] = b[i];
            self.pos += 1;
            i += 1;
        }
        Ok(())
    }
    fn flush(&mut self) -> io::Result<()> {
        Ok(())
    }
}

/// N symbolic bytes, one nondeterministic value per byte (so that a
/// counterexample trace lists each byte on its own).
///
/// Only in the value-extraction re-run of a *failed* harness
/// (`--cfg verif_playback`, never in a deciding run) an assumption that
/// mentions every byte keeps them all in CBMC's formula slice, so that the
/// trace is complete and positions are exact; it excludes 1/256 of the inputs,
/// which is harmless there because the extracted values are only a candidate
/// that is then validated by running the real code natively.
#[cfg(kani)]
pub fn sym_bytes<const N: usize>() -> [u8; N] {
    let mut a = [0u8; N];
    let mut i = 0;
    while i < N {
        a[i] = kani::any();
        i += 1;
    }
    #[cfg(verif_playback)]
    {
        let mut x = 0u8;
        let mut j = 0;
        while j < N {
            x = (x ^ a[j]).rotate_left(1);
            j += 1;
        }
        kani::assume(N == 0 || x != 0xA7);
    }
    a
}
