//! C08: the checksum is CRC-32C (Castagnoli) with Snappy masking, for every
//! length and chunking, by decomposition:
//!   byte step == bitwise reference            (any state, any byte)
//!   tail of L <= 15 bytes == reference fold   (any state)
//!   16-byte block step F is GF(2)-affine, the 16-fold reference byte step G
//!   is GF(2)-affine, F and G agree on an affine basis  =>  F == G
//! Hand glue (listed in evidence.assumptions): `update(buf)` = blocks then
//! tail; induction over blocks gives update == reference fold for all
//! lengths, hence independence of chunking. Injectivity lemmas give
//! single-byte (and in-region burst) corruption detection.
use fst::raw::verif as v;

use crate::util::{crc_ref, crc_ref_byte, crc_reg_step, mask_ref};

fn real_update(state: u32, bs: &[u8]) -> u32 {
    let mut s = v::CheckSummer::verif_from_state(state);
    s.update(bs);
    s.verif_state()
}

#[kani::proof]
#[kani::unwind(9)]
fn c08_byte_step_eq_reference() {
    let s: u32 = kani::any();
    let b: u8 = kani::any();
    assert!(real_update(s, &[b]) == crc_ref_byte(s, b));
}

#[kani::proof]
fn c08_empty_update_is_identity() {
    let s: u32 = kani::any();
    assert!(real_update(s, &[]) == s);
    assert!(v::CheckSummer::new().verif_state() == 0);
}

fn tail<const L: usize>() {
    let s: u32 = kani::any();
    let d: [u8; L] = kani::any();
    assert!(real_update(s, &d) == crc_ref(s, &d));
}

macro_rules! tail_h {
    ($name:ident, $l:expr) => {
        #[kani::proof]
        #[kani::unwind(17)]
        fn $name() {
            tail::<$l>();
        }
    };
}
tail_h!(c08_tail_2, 2);
tail_h!(c08_tail_3, 3);
tail_h!(c08_tail_4, 4);
tail_h!(c08_tail_7, 7);
tail_h!(c08_tail_8, 8);
tail_h!(c08_tail_15, 15);

fn xor16(a: &[u8; 16], b: &[u8; 16], c: &[u8; 16]) -> [u8; 16] {
    let mut o = [0u8; 16];
    let mut i = 0;
    while i < 16 {
        o[i] = a[i] ^ b[i] ^ c[i];
        i += 1;
    }
    o
}

/// The real 16-byte block step is affine over GF(2) in (state, data).
#[kani::proof]
#[kani::unwind(17)]
fn c08_block16_affine() {
    let (s1, s2, s3): (u32, u32, u32) = (kani::any(), kani::any(), kani::any());
    let d1: [u8; 16] = kani::any();
    let d2: [u8; 16] = kani::any();
    let d3: [u8; 16] = kani::any();
    let d = xor16(&d1, &d2, &d3);
    let lhs = real_update(s1 ^ s2 ^ s3, &d);
    let rhs = real_update(s1, &d1) ^ real_update(s2, &d2) ^ real_update(s3, &d3);
    assert!(lhs == rhs);
}

/// Same statement in the cheaper two-operand form:
/// F(x ^ y) ^ F(0) == F(x) ^ F(y) for all x, y  <=>  F is GF(2)-affine.
#[kani::proof]
#[kani::unwind(17)]
fn c08_block16_affine2() {
    let (s1, s2): (u32, u32) = (kani::any(), kani::any());
    let d1: [u8; 16] = kani::any();
    let d2: [u8; 16] = kani::any();
    let z = [0u8; 16];
    let d = xor16(&d1, &d2, &z);
    let lhs = real_update(s1 ^ s2, &d) ^ real_update(0, &z);
    let rhs = real_update(s1, &d1) ^ real_update(s2, &d2);
    assert!(lhs == rhs);
}

/// The reference (16 bitwise byte steps) is affine too. Reference-only lemma.
#[kani::proof]
#[kani::unwind(17)]
fn c08_reference16_affine() {
    let (s1, s2, s3): (u32, u32, u32) = (kani::any(), kani::any(), kani::any());
    let d1: [u8; 16] = kani::any();
    let d2: [u8; 16] = kani::any();
    let d3: [u8; 16] = kani::any();
    let d = xor16(&d1, &d2, &d3);
    let lhs = crc_ref(s1 ^ s2 ^ s3, &d);
    let rhs = crc_ref(s1, &d1) ^ crc_ref(s2, &d2) ^ crc_ref(s3, &d3);
    assert!(lhs == rhs);
}

/// F and G agree at the origin and on all 160 unit vectors.
#[kani::proof]
#[kani::unwind(17)]
fn c08_block16_basis_agree() {
    let bit: u8 = kani::any();
    kani::assume(bit <= 160);
    let mut s: u32 = 0;
    let mut d = [0u8; 16];
    if bit < 32 {
        s = 1u32 << bit;
    } else if bit < 160 {
        let k = (bit - 32) as usize;
        d[k / 8] = 1u8 << (k % 8);
    } // bit == 160: the origin
    assert!(real_update(s, &d) == crc_ref(s, &d));
}

/// Chunking independence at the fast-path boundary, directly: 16+L bytes in
/// one call == 16 bytes then L bytes (real code both sides).
#[kani::proof]
#[kani::unwind(20)]
fn c08_chunking_17() {
    let s: u32 = kani::any();
    let d: [u8; 17] = kani::any();
    let one = real_update(s, &d);
    let two = real_update(real_update(s, &d[..16]), &d[16..]);
    let three = real_update(real_update(s, &d[..1]), &d[1..]);
    assert!(one == two);
    assert!(one == three);
}

#[kani::proof]
fn c08_masking() {
    let s: u32 = kani::any();
    let m = v::CheckSummer::verif_from_state(s).masked();
    assert!(m == s.rotate_right(15).wrapping_add(0xA282_EAD8));
    assert!(m == mask_ref(s));
    // injective: unmask recovers the state
    assert!(m.wrapping_sub(0xA282_EAD8).rotate_left(15) == s);
}

/// The generated tables are the CRC-32C tables (polynomial 0x82F63B78).
#[kani::proof]
#[kani::unwind(9)]
fn c08_tables() {
    let (t, t16) = v::verif_tables();
    let i: u8 = kani::any();
    let j: usize = kani::any();
    kani::assume(j >= 1 && j < 16);
    // TABLE[i] = 8 bitwise steps of i
    assert!(t[i as usize] == crc_reg_step(0, i) );
    assert!(t16[0][i as usize] == t[i as usize]);
    let prev = t16[j - 1][i as usize];
    assert!(t16[j][i as usize] == (prev >> 8) ^ t[(prev & 0xff) as usize]);
}

/// Single-byte corruption lemmas on the real code: the update is injective
/// in the byte (fixed state) and in the state (fixed byte).
#[kani::proof]
#[kani::unwind(3)]
fn c08_step_injective() {
    let s1: u32 = kani::any();
    let s2: u32 = kani::any();
    let b1: u8 = kani::any();
    let b2: u8 = kani::any();
    if b1 != b2 {
        assert!(real_update(s1, &[b1]) != real_update(s1, &[b2]));
    }
    if s1 != s2 {
        assert!(real_update(s1, &[b1]) != real_update(s2, &[b1]));
    }
}

/// Bursts up to 4 bytes inside the checksummed region.
#[kani::proof]
#[kani::unwind(6)]
fn c08_burst4_injective() {
    let s: u32 = kani::any();
    let d1: [u8; 4] = kani::any();
    let d2: [u8; 4] = kani::any();
    kani::assume(d1[0] != d2[0] || d1[1] != d2[1] || d1[2] != d2[2] || d1[3] != d2[3]);
    assert!(real_update(s, &d1) != real_update(s, &d2));
}

#[kani::proof]
#[kani::unwind(9)]
fn c08_twin_must_fail() {
    let s: u32 = kani::any();
    let b: u8 = kani::any();
    assert!(real_update(s, &[b]) != 0x1234_5678, "twin: every CRC value is reachable");
}
