//! C18: built-in automata and combinators against their specifications, with
//! component automata that are *symbolic programs*: every DFA with <= 3
//! states over 2 byte classes (byte & 1), with every hint assignment that is
//! sound for that DFA. No FST involved.
use fst::automaton::{AlwaysMatch, Automaton, Str, Subsequence};

pub const NS: usize = 3;

/// A symbolic DFA over two byte classes with symbolic pruning hints.
#[derive(Clone, Copy)]
pub struct SymDfa {
    pub next: [[u8; 2]; NS],
    pub acc: [bool; NS],
    pub can: [bool; NS],
    pub will: [bool; NS],
}

impl Automaton for SymDfa {
    type State = u8;
    fn start(&self) -> u8 {
        0
    }
    fn is_match(&self, s: &u8) -> bool {
        self.acc[*s as usize]
    }
    fn can_match(&self, s: &u8) -> bool {
        self.can[*s as usize]
    }
    fn will_always_match(&self, s: &u8) -> bool {
        self.will[*s as usize]
    }
    fn accept(&self, s: &u8, b: u8) -> u8 {
        self.next[*s as usize][(b & 1) as usize]
    }
}

/// Any DFA, with hints constrained only by the Automaton contract:
///   can[s] may be false only if no accepting state is reachable from s;
///   will[s] may be true only if every state reachable from s accepts.
/// Reachability over <= 3 states is a 3-round fixpoint.
pub fn any_dfa() -> SymDfa {
    let d = SymDfa { next: kani::any(), acc: kani::any(), can: kani::any(), will: kani::any() };
    let mut i = 0;
    while i < NS {
        kani::assume((d.next[i][0] as usize) < NS && (d.next[i][1] as usize) < NS);
        i += 1;
    }
    // reach_acc[s]: an accepting state is reachable from s (in >= 0 steps)
    // all_acc[s]: every state reachable from s accepts
    let mut reach_acc = d.acc;
    let mut all_acc = d.acc;
    let mut round = 0;
    while round < NS {
        let mut s = 0;
        while s < NS {
            let a = d.next[s][0] as usize;
            let b = d.next[s][1] as usize;
            reach_acc[s] = reach_acc[s] || reach_acc[a] || reach_acc[b];
            all_acc[s] = all_acc[s] && all_acc[a] && all_acc[b];
            s += 1;
        }
        round += 1;
    }
    let mut s = 0;
    while s < NS {
        kani::assume(d.can[s] || !reach_acc[s]);
        kani::assume(!d.will[s] || all_acc[s]);
        s += 1;
    }
    d
}

fn run<A: Automaton>(a: &A, w: &[u8]) -> A::State {
    let mut st = a.start();
    let mut i = 0;
    while i < w.len() {
        st = a.accept(&st, w[i]);
        i += 1;
    }
    st
}

/// The language of a component, by running it (its own is_match is the spec
/// of a leaf; for combinators the spec is the Boolean combination below).
fn lang<A: Automaton>(a: &A, w: &[u8]) -> bool {
    let st = run(a, w);
    a.is_match(&st)
}

fn some_prefix_in<A: Automaton>(a: &A, w: &[u8]) -> bool {
    let mut k = 0;
    let mut any = false;
    while k <= w.len() {
        any = any || lang(a, &w[..k]);
        k += 1;
    }
    any
}

/// Hints of a composed automaton `c` are sound on the state reached by `w`
/// for every continuation `x` (|x| <= LX), and its language is `spec`.
fn check<A: Automaton, const LW: usize, const LX: usize>(c: &A, spec: &dyn Fn(&[u8]) -> bool) {
    let w: [u8; LW] = kani::any();
    let lw: usize = kani::any();
    kani::assume(lw <= LW);
    let x: [u8; LX] = kani::any();
    let lx: usize = kani::any();
    kani::assume(lx <= LX);
    let st = run(c, &w[..lw]);
    assert!(c.is_match(&st) == spec(&w[..lw]), "language differs from the specification");
    // continuation
    let mut wx = [0u8; 8];
    let mut i = 0;
    while i < lw {
        wx[i] = w[i];
        i += 1;
    }
    let mut j = 0;
    while j < lx {
        wx[lw + j] = x[j];
        j += 1;
    }
    let matches_later = spec(&wx[..lw + lx]);
    if !c.can_match(&st) {
        assert!(!matches_later, "can_match is false although a continuation matches");
    }
    if c.will_always_match(&st) {
        assert!(matches_later, "will_always_match is true although a continuation does not match");
    }
    kani::cover!(!c.can_match(&st), "can_match false somewhere reachable");
    kani::cover!(c.will_always_match(&st), "will_always_match true somewhere reachable");
}

macro_rules! shape {
    ($name:ident, $uw:expr, |$a:ident, $b:ident| $build:expr, |$w:ident| $spec:expr) => {
        #[kani::proof]
        #[kani::unwind($uw)]
        fn $name() {
            let $a = any_dfa();
            let $b = any_dfa();
            let c = $build;
            let spec = |$w: &[u8]| -> bool { $spec };
            check::<_, 4, 3>(&c, &spec);
        }
    };
}

// depth 1
shape!(c18_starts_with_a, 9, |a, b| a.starts_with(), |w| some_prefix_in(&a, w));
shape!(c18_union_ab, 9, |a, b| a.union(b), |w| lang(&a, w) || lang(&b, w));
shape!(c18_intersection_ab, 9, |a, b| a.intersection(b), |w| lang(&a, w) && lang(&b, w));
shape!(c18_complement_a, 9, |a, b| a.complement(), |w| !lang(&a, w));
// depth 2
shape!(c18_compl_union, 9, |a, b| a.union(b).complement(), |w| !(lang(&a, w) || lang(&b, w)));
shape!(c18_compl_inter, 9, |a, b| a.intersection(b).complement(), |w| !(lang(&a, w) && lang(&b, w)));
shape!(c18_compl_compl, 9, |a, b| a.complement().complement(), |w| lang(&a, w));
shape!(c18_compl_starts, 9, |a, b| a.starts_with().complement(), |w| !some_prefix_in(&a, w));
shape!(c18_starts_compl, 9, |a, b| a.complement().starts_with(), |w| {
    let mut k = 0;
    let mut any = false;
    while k <= w.len() {
        any = any || !lang(&a, &w[..k]);
        k += 1;
    }
    any
});
shape!(c18_union_starts, 9, |a, b| a.starts_with().union(b), |w| some_prefix_in(&a, w) || lang(&b, w));
shape!(c18_inter_starts, 9, |a, b| a.starts_with().intersection(b), |w| some_prefix_in(&a, w) && lang(&b, w));
shape!(c18_inter_compl, 9, |a, b| a.intersection(b.complement()), |w| lang(&a, w) && !lang(&b, w));
shape!(c18_union_compl, 9, |a, b| a.complement().union(b), |w| !lang(&a, w) || lang(&b, w));
shape!(c18_starts_union, 9, |a, b| a.union(b).starts_with(), |w| {
    let mut k = 0;
    let mut any = false;
    while k <= w.len() {
        any = any || lang(&a, &w[..k]) || lang(&b, &w[..k]);
        k += 1;
    }
    any
});
shape!(c18_starts_inter, 9, |a, b| a.intersection(b).starts_with(), |w| {
    let mut k = 0;
    let mut any = false;
    while k <= w.len() {
        any = any || (lang(&a, &w[..k]) && lang(&b, &w[..k]));
        k += 1;
    }
    any
});
shape!(c18_starts_starts, 9, |a, b| a.starts_with().starts_with(), |w| some_prefix_in(&a, w));
// depth 3
shape!(c18_d3_compl_inter_starts, 9, |a, b| a.starts_with().intersection(b).complement(),
       |w| !(some_prefix_in(&a, w) && lang(&b, w)));
shape!(c18_d3_starts_compl_union, 9, |a, b| a.union(b).complement().starts_with(), |w| {
    let mut k = 0;
    let mut any = false;
    while k <= w.len() {
        any = any || !(lang(&a, &w[..k]) || lang(&b, &w[..k]));
        k += 1;
    }
    any
});
shape!(c18_d3_union_compl_starts, 9, |a, b| a.starts_with().complement().union(b),
       |w| !some_prefix_in(&a, w) || lang(&b, w));
shape!(c18_d3_inter_union_compl, 9, |a, b| a.union(b.complement()).intersection(b),
       |w| (lang(&a, w) || !lang(&b, w)) && lang(&b, w));
shape!(c18_d3_compl_compl_compl, 9, |a, b| a.complement().complement().complement(), |w| !lang(&a, w));

/// Leaves with the built-ins as components of combinators.
fn is_subseq(pat: &[u8], w: &[u8]) -> bool {
    let mut i = 0;
    let mut j = 0;
    while j < w.len() {
        if i < pat.len() && pat[i] == w[j] {
            i += 1;
        }
        j += 1;
    }
    i == pat.len()
}

fn bytes_eq(a: &[u8], b: &[u8]) -> bool {
    if a.len() != b.len() {
        return false;
    }
    let mut i = 0;
    while i < a.len() {
        if a[i] != b[i] {
            return false;
        }
        i += 1;
    }
    true
}

fn ascii_pat<const L: usize>() -> [u8; L] {
    let p: [u8; L] = kani::any();
    let mut i = 0;
    while i < L {
        kani::assume(p[i] < 0x80);
        i += 1;
    }
    p
}

fn leaf_str<const L: usize>() {
    let p = ascii_pat::<L>();
    let ps = match core::str::from_utf8(&p) {
        Ok(s) => s,
        Err(_) => return,
    };
    let a = Str::new(ps);
    let spec = |w: &[u8]| bytes_eq(&p, w);
    check::<_, 4, 3>(&a, &spec);
}

fn leaf_subseq<const L: usize>() {
    let p = ascii_pat::<L>();
    let ps = match core::str::from_utf8(&p) {
        Ok(s) => s,
        Err(_) => return,
    };
    let a = Subsequence::new(ps);
    let spec = |w: &[u8]| is_subseq(&p, w);
    check::<_, 4, 3>(&a, &spec);
}

#[kani::proof]
#[kani::unwind(9)]
fn c18_leaf_str_0() {
    leaf_str::<0>();
}
#[kani::proof]
#[kani::unwind(9)]
fn c18_leaf_str_2() {
    leaf_str::<2>();
}
#[kani::proof]
#[kani::unwind(9)]
fn c18_leaf_str_3() {
    leaf_str::<3>();
}
#[kani::proof]
#[kani::unwind(9)]
fn c18_leaf_subseq_0() {
    leaf_subseq::<0>();
}
#[kani::proof]
#[kani::unwind(9)]
fn c18_leaf_subseq_2() {
    leaf_subseq::<2>();
}
#[kani::proof]
#[kani::unwind(9)]
fn c18_leaf_subseq_3() {
    leaf_subseq::<3>();
}
#[kani::proof]
#[kani::unwind(9)]
fn c18_leaf_always() {
    let a = AlwaysMatch;
    let spec = |_w: &[u8]| true;
    check::<_, 4, 3>(&a, &spec);
}

/// Built-ins inside combinators: Str(p).starts_with() is "has prefix p";
/// Subsequence and Str combined; complement of AlwaysMatch never matches.
#[kani::proof]
#[kani::unwind(9)]
fn c18_str_starts_with() {
    let p = ascii_pat::<2>();
    if let Ok(ps) = core::str::from_utf8(&p) {
        let a = Str::new(ps).starts_with();
        let spec = |w: &[u8]| w.len() >= 2 && w[0] == p[0] && w[1] == p[1];
        check::<_, 4, 3>(&a, &spec);
    }
}

#[kani::proof]
#[kani::unwind(9)]
fn c18_subseq_inter_compl_str() {
    let p = ascii_pat::<2>();
    let q = ascii_pat::<2>();
    if let (Ok(ps), Ok(qs)) = (core::str::from_utf8(&p), core::str::from_utf8(&q)) {
        let a = Subsequence::new(ps).intersection(Str::new(qs).complement());
        let spec = |w: &[u8]| is_subseq(&p, w) && !bytes_eq(&q, w);
        check::<_, 4, 3>(&a, &spec);
    }
}

#[kani::proof]
#[kani::unwind(9)]
fn c18_always_compl_union_dfa() {
    let d = any_dfa();
    let a = AlwaysMatch.complement().union(d);
    let spec = |w: &[u8]| lang(&d, w);
    check::<_, 4, 3>(&a, &spec);
}

/// `&A` forwards everything.
#[kani::proof]
#[kani::unwind(9)]
fn c18_ref_forwarding() {
    let d = any_dfa();
    let r = &d;
    let c = r.complement();
    let spec = |w: &[u8]| !lang(&d, w);
    check::<_, 4, 3>(&c, &spec);
}

#[kani::proof]
#[kani::unwind(9)]
fn c18_twin_must_fail() {
    let a = any_dfa();
    let c = a.complement();
    let w: [u8; 2] = kani::any();
    let st = run(&c, &w);
    assert!(c.can_match(&st), "twin: a sound hint assignment with can_match false must exist");
}
