//! C02: the common-input byte compression used by the one-transition node
//! forms. Encoder side `common_idx`, decoder side `common_input`.
use fst::raw::verif as v;

#[kani::proof]
fn c02_common_inputs_inverse() {
    let b: u8 = kani::any();
    // 6-bit budget used by both one-transition forms
    let idx = v::common_idx(b, 0b111111);
    assert!(idx <= 0b111111);
    match v::common_input(idx) {
        None => assert!(idx == 0, "index 0 is the escape: the byte is stored explicitly"),
        Some(back) => assert!(back == b, "common-input index decodes to a different byte"),
    }
    // the two tables are mutually inverse permutations
    let i = v::COMMON_INPUTS[b as usize];
    assert!(v::COMMON_INPUTS_INV[i as usize] == b);
    let j: u8 = kani::any();
    assert!(v::COMMON_INPUTS[v::COMMON_INPUTS_INV[j as usize] as usize] == j);
    // and the decoder's table is the format's table
    assert!(v::COMMON_INPUTS_INV[j as usize] == crate::format_table::FORMAT_COMMON_INPUTS_INV[j as usize]);
    kani::cover!(idx == 0);
    kani::cover!(idx == 63);
}

#[kani::proof]
fn c02_twin_must_fail() {
    let b: u8 = kani::any();
    assert!(v::common_idx(b, 0b111111) != 0, "twin: some byte is not common");
}
