use fst::raw::verif as v;

/// unpack(pack_in(n, w), w) == n for every u64 and every legal width;
/// pack_size is the minimal width.
#[kani::proof]
#[kani::unwind(9)]
fn c01_pack_roundtrip() {
    let n: u64 = kani::any();
    let w: u8 = kani::any();
    let min = v::pack_size(n);
    assert!(1 <= min && min <= 8);
    // minimality: n fits in `min` bytes and not in fewer
    if min < 8 {
        assert!(n < (1u64 << (8 * min as u32)));
    }
    if min > 1 {
        assert!(n >= (1u64 << (8 * (min as u32 - 1))));
    }
    kani::assume(w >= min && w <= 8);
    let mut buf = [0u8; 8];
    let r = v::pack_uint_in(&mut buf[..], n, w);
    assert!(r.is_ok());
    let got = v::unpack_uint(&buf, w);
    assert!(got == n);
    kani::cover!(min == 8);
    kani::cover!(min == 1 && w == 8);
    core::mem::forget(r);
}
