#!/bin/bash
# Offline setup: build the native generator and warm the Kani build of the
# harness crate from files on disk only. Checks rebuild from /repo anyway.
set -e
cd "$(dirname "$0")"
export CARGO_NET_OFFLINE=true RUSTFLAGS="--cfg burntsushi_fst_verif"
mkdir -p target logs evidence replay
(cd gen && cargo build --offline --quiet --target-dir ../target/gen)
./target/gen/debug/fstgen --out harness/src/generated --seed 0 --tier quick --props NONE >/dev/null
(cd harness && cargo kani --only-codegen --harness c01_pack::c01_pack_roundtrip --exact --target-dir ../target/k0 >/dev/null 2>&1 || true)
echo setup ok
