#!/usr/bin/env python3
"""dev helper: run harnesses in parallel: tools_run.py [-t timeout] [-m memgb] [-u unwind] h1 h2 ..."""
import sys, argparse; sys.path.insert(0,'/verif')
from vlib.kani import *
import concurrent.futures as cf
ap=argparse.ArgumentParser(); ap.add_argument('-t',type=int,default=1200); ap.add_argument('-m',type=float,default=12); ap.add_argument('-u',type=int,default=None); ap.add_argument('-s',action='store_true'); ap.add_argument('-j',type=int,default=6); ap.add_argument('--slot0',type=int,default=0); ap.add_argument('hs',nargs='+')
a=ap.parse_args()
obs=[Obligation(h,"",timeout=a.t,mem_gb=a.m,unwind=a.u,stubbing=a.s) for h in a.hs]
import queue
slots=queue.Queue()
for i in range(a.j): slots.put(a.slot0+i)
def go(ob):
    s=slots.get()
    try: return run_obligation(ob,s)
    finally: slots.put(s)
with cf.ThreadPoolExecutor(a.j) as ex:
    for r in ex.map(go, obs):
        print(r['harness'],r['verdict'],r['why'],'wall',r['wall_s'],'vt',r['verification_time_s'],'symex',r['symex_s'],r['counts'],'unsatcov',[c['description'] for c in r['covers_unsatisfied']],'failed',[(f['description'],f['location'].split(' in ')[0]) for f in r['failed'][:4]], flush=True)
