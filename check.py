#!/usr/bin/env python3
"""Decide one property of /verif/properties.jsonl for /repo's current tree.

  check.py <ID> [--tier quick|thorough] [--replay PATH] [--list]

exit 0  every solver query that was decided holds (undecided non-core queries
        are listed as undecided, never as discharged)
exit 1  a violation that reproduces natively; prints
        VIOLATION property=<id> replay=<path>
exit 2  inconclusive: a core query undecided, a vacuity witness missing, a
        counterexample that does not reproduce, a tool error
"""
import argparse
import concurrent.futures as cf
import hashlib
import json
import os
import queue
import subprocess
import sys
import threading
import time

VERIF = os.path.dirname(os.path.abspath(__file__))
sys.path.insert(0, VERIF)
from vlib import kani as K          # noqa: E402
from vlib import plans as PL        # noqa: E402
from vlib import lev as LEV         # noqa: E402
from vlib import replay as RP       # noqa: E402

GEN_DIR = os.path.join(VERIF, "gen")
GEN_OUT = os.path.join(VERIF, "harness", "src", "generated")
EVIDENCE_DIR = os.path.join(VERIF, "evidence")
KNOWN = os.path.join(VERIF, "known_findings.json")
MEM_BUDGET_GB = float(os.environ.get("VERIF_MEM_GB", "52"))
MAX_PAR = int(os.environ.get("VERIF_JOBS", "14"))

TECH = {"C17": "z3"}


def load_known():
    try:
        with open(KNOWN) as f:
            return json.load(f)
    except FileNotFoundError:
        return {"findings": [], "fixed": []}


def run_gen(prop, tier, seed):
    """Regenerate artifacts from /repo's current tree. Returns (index|None, info)."""
    env = K.base_env()
    os.makedirs(GEN_OUT, exist_ok=True)
    t0 = time.time()
    cmd = ["cargo", "run", "--offline", "--quiet", "--target-dir", os.path.join(K.TARGET_ROOT, "gen"), "--",
           "--out", GEN_OUT, "--seed", str(seed), "--tier", tier, "--props", prop]
    os.makedirs(K.LOG_DIR, exist_ok=True)
    log = os.path.join(K.LOG_DIR, "gen_%s.log" % prop)
    with open(log, "wb") as f:
        p = subprocess.run(cmd, cwd=GEN_DIR, env=env, stdout=f, stderr=subprocess.STDOUT)
    if p.returncode != 0:
        return None, {"rc": p.returncode, "log": log, "wall_s": time.time() - t0}
    with open(os.path.join(GEN_OUT, "index.json")) as f:
        idx = json.load(f)
    return idx, {"rc": 0, "log": log, "wall_s": round(time.time() - t0, 2)}


class Pool:
    """Run obligations in parallel under a memory budget; one Kani target dir per slot."""

    def __init__(self, obligations):
        self.todo = sorted(obligations, key=lambda o: -o.timeout)  # long ones first
        self.lock = threading.Condition()
        self.mem_in_use = 0.0
        self.slots = queue.Queue()
        for i in range(MAX_PAR):
            self.slots.put(i)
        self.results = {}

    def _worker(self, ob):
        with self.lock:
            while self.mem_in_use + ob.mem_gb > MEM_BUDGET_GB and self.mem_in_use > 0:
                self.lock.wait()
            self.mem_in_use += ob.mem_gb
        slot = self.slots.get()
        try:
            res = K.run_obligation(ob, slot)
        except Exception as e:  # tool failure: inconclusive, never a pass
            res = {"harness": ob.harness, "verdict": "INCONCLUSIVE", "why": "driver exception: %r" % e, "wall_s": 0.0,
                   "failed": [], "n_checks": 0, "counts": {}, "covers_satisfied": 0, "covers_unsatisfied": []}
        finally:
            self.slots.put(slot)
            with self.lock:
                self.mem_in_use -= ob.mem_gb
                self.lock.notify_all()
        return ob, res

    def run(self):
        out = []
        with cf.ThreadPoolExecutor(MAX_PAR) as ex:
            futs = [ex.submit(self._worker, ob) for ob in self.todo]
            for f in cf.as_completed(futs):
                ob, res = f.result()
                out.append((ob, res))
                print("  [%s] %-55s %-12s %7.1fs %s" % (time.strftime("%H:%M:%S"), ob.harness.split("::")[-1], res["verdict"],
                                                       res.get("wall_s", 0.0), res.get("why", "")), flush=True)
        return out


def match_known(prop, ob, res, known):
    """A failing harness is a known finding only if *every* failed check matches a listed role."""
    hits = []
    for f in res["failed"]:
        m = None
        for k in known.get("findings", []):
            if k["property"] != prop:
                continue
            if k.get("harness_role") and k["harness_role"] not in ob.harness:
                continue
            if k.get("assertion") and k["assertion"] not in f["description"]:
                continue
            m = k
            break
        if m is None:
            return None
        hits.append(m)
    return hits


def main():
    ap = argparse.ArgumentParser()
    ap.add_argument("prop")
    ap.add_argument("--tier", default=os.environ.get("VERIF_TIER", "quick"))
    ap.add_argument("--replay", default=None)
    ap.add_argument("--list", action="store_true")
    ap.add_argument("--only", default=None, help="dev: substring filter on harness names")
    a = ap.parse_args()
    prop = a.prop.upper()
    tier = a.tier if a.tier in ("quick", "thorough") else "quick"
    os.environ["VERIF_TIER_EFFECTIVE"] = tier
    try:
        seed = int(os.environ.get("VERIF_SEED", "0"))
    except ValueError:
        seed = 0

    if a.replay:
        sys.exit(RP.replay(prop, a.replay))

    t0 = time.time()
    known = load_known()
    if prop == "C17":
        sys.exit(LEV.check_c17(tier, seed, known, run_gen, t0))
    if prop not in PL.PLANS:
        print("property %s is not claimed by this framework (see MANIFEST.json not_applicable)" % prop)
        sys.exit(2)

    print("== %s tier=%s seed=%d: regenerating artifacts from /repo's working tree" % (prop, tier, seed), flush=True)
    index, ginfo = run_gen(prop, tier, seed)
    if index is None:
        print("generator failed against the current tree (rc=%s, log %s): inconclusive" % (ginfo["rc"], ginfo["log"]))
        write_evidence(prop, tier, seed, t0, [], [], [], {"generator": ginfo}, inconclusive=["generator failed"])
        sys.exit(2)
    plan = PL.PLANS[prop](tier, seed, index)
    if a.only:
        plan = [o for o in plan if a.only in o.harness]
    if a.list:
        for o in plan:
            print(o.harness, o.expect, o.timeout, o.mem_gb, "core" if o.core else "")
        return
    print("== %d solver queries (Kani/CBMC, CaDiCaL)" % len(plan), flush=True)
    results = Pool(plan).run()

    violations, inconclusive, known_hits, undecided = [], [], [], []
    # native cross-checks from the generator (concrete, labelled as such)
    for nf in index.get("native_failures", []):
        if prop in nf["properties"]:
            path = RP.save_native(prop, nf)
            violations.append({"kind": "native", "what": "%s: %s" % (nf["artifact"], nf["what"]), "replay": path})
        elif "GEN" in nf["properties"]:
            inconclusive.append("generator self-check: %s %s" % (nf["artifact"], nf["what"]))
    for ob, res in results:
        v = res["verdict"]
        if ob.expect == "fail":
            if v == "FAIL":
                continue
            if v == "PASS":
                inconclusive.append("vacuity twin %s did not fail: the harness family proves nothing" % ob.harness)
            else:
                inconclusive.append("vacuity twin %s undecided: %s" % (ob.harness, res.get("why")))
            continue
        if v == "PASS":
            continue
        if v == "FAIL":
            hits = match_known(prop, ob, res, known)
            if hits:
                for h in hits:
                    known_hits.append((h, ob))
                continue
            rp = RP.replay_counterexample(prop, ob, res)
            if rp["reproduced"]:
                violations.append({"kind": "solver", "harness": ob.harness, "what": "; ".join(f["description"] for f in res["failed"][:3]),
                                   "replay": rp["path"]})
            else:
                inconclusive.append("counterexample of %s did not reproduce natively (%s): encoding or stub suspect" % (ob.harness, rp.get("why")))
            continue
        # INCONCLUSIVE
        why = res.get("why", "")
        benign = ("timeout" in why) or ("out of memory" in why) or ("no verdict" in why)
        if benign and not ob.core:
            undecided.append("%s: %s" % (ob.harness, why))
        else:
            inconclusive.append("%s: %s" % (ob.harness, why))

    seen = set()
    for h, ob in known_hits:
        key = h["id"]
        if key in seen:
            continue
        seen.add(key)
        print("KNOWN-FINDING: property=%s %s" % (prop, h["what"]))
    write_evidence(prop, tier, seed, t0, results, violations, undecided, {"generator": ginfo, "index": index},
                   inconclusive=inconclusive, known_hits=[h["id"] for h, _ in known_hits])
    for vi in violations[:12]:
        print("VIOLATION property=%s replay=%s" % (prop, vi["replay"]))
        print("  " + vi["what"])
    if len(violations) > 12:
        print("(%d more violations; all are listed in %s)" % (len(violations) - 12, os.path.join(EVIDENCE_DIR, prop + ".json")))
    if violations:
        sys.exit(1)
    if inconclusive:
        print("INCONCLUSIVE:")
        for i in inconclusive:
            print("  " + i)
        sys.exit(2)
    if undecided:
        print("undecided (not counted as discharged): %d" % len(undecided))
    print("OK %s: %d queries decided, %.0fs" % (prop, sum(1 for _, r in results if r["verdict"] in ("PASS", "FAIL")), time.time() - t0))
    sys.exit(0)


def write_evidence(prop, tier, seed, t0, results, violations, undecided, extra, inconclusive=(), known_hits=()):
    os.makedirs(EVIDENCE_DIR, exist_ok=True)
    decided = [(o, r) for o, r in results if r["verdict"] in ("PASS", "FAIL")]
    passed = [(o, r) for o, r in results if (r["verdict"] == "PASS" and o.expect == "pass") or (r["verdict"] == "FAIL" and o.expect == "fail")]
    # a passing harness with unsatisfied cover witnesses is INCONCLUSIVE, never PASS; so every
    # expected-to-hold harness that passed and discharged at least one check is non-vacuous
    nontrivial = [(o, r) for o, r in passed if o.expect == "pass" and r.get("counts", {}).get("SUCCESS", 0) > 0]
    n_checks = sum(r.get("n_checks", 0) for _, r in results)
    n_success = sum(r.get("counts", {}).get("SUCCESS", 0) for _, r in results if r["verdict"] == "PASS")
    fns = sorted({f for o, _ in results for f in o.functions})
    samples = []
    for o, r in results[:400]:
        samples.append({
            "harness": o.harness, "what": o.desc, "bounds": o.bounds, "expect": o.expect, "verdict": r["verdict"],
            "why": r.get("why", ""), "checks": r.get("n_checks", 0), "covers_satisfied": r.get("covers_satisfied", 0),
            "wall_s": r.get("wall_s"), "symex_s": r.get("symex_s"), "solver_s": r.get("solver_s"),
            "sat_vars_clauses": r.get("sat_vars_clauses"), "vccs": r.get("vccs"), "unwindset": r.get("note", ""),
            "artifact": o.artifact,
        })
    idx = extra.get("index") or {}
    ev = {
        "property_id": prop,
        "tier": tier,
        "seed": seed,
        "level": "model_checking",
        "coverage": {
            "evaluations": max(1, len(decided)),
            "distinct_nontrivial": len({o.harness for o, _ in nontrivial}),
            "rule": "one evaluation = one Kani harness decided by CBMC (SAT, CaDiCaL) over the compiled code of /repo's current tree; "
                    "non-trivial = expected-to-hold harness that passed with every kani::cover! witness it declares satisfied and at least one check discharged (must-fail vacuity twins and undecided queries are not counted)",
            "samples": samples,
            "obligations": n_checks,
            "discharged": n_success,
            "queries": len(results),
            "queries_decided": len(decided),
            "queries_undecided": list(undecided),
            "inconclusive": list(inconclusive),
            "functions_encoded": fns,
            "solver_time_s": round(sum((r.get("solver_s") or 0) for _, r in results), 2),
            "symex_time_s": round(sum((r.get("symex_s") or 0) for _, r in results), 2),
            "checker_cmd": "cargo kani --harness <h> --exact [--cbmc-args --unwindset ...] (Kani 0.68.0, CBMC 6.11.0, CaDiCaL); unwinding assertions on",
            "trusted_base": ["rustc/Kani MIR->goto translation", "CBMC 6.11 symbolic execution and bit-blasting", "CaDiCaL",
                             "harness-side specifications in /verif/harness/src and /verif/shared"],
            "artifacts_built_from_current_tree": len(idx.get("artifacts", [])),
            "native_crosschecks": idx.get("native_checks", 0),
            "native_failures": idx.get("native_failures", []),
            "known_findings_matched": list(known_hits),
            "explanation": "Bounded model checking of the real code: every listed harness holds for EVERY value of its symbolic variables within the stated bounds; nothing is claimed outside them.",
            "exhaustive": False,
        },
        "assumptions": ASSUMPTIONS.get(prop, []),
        "wall_s": round(time.time() - t0, 2),
        "violations": len(violations),
    }
    if violations:
        ev["coverage"]["violation_details"] = violations
    with open(os.path.join(EVIDENCE_DIR, "%s.json" % prop), "w") as f:
        json.dump(ev, f, indent=1)


ASSUMPTIONS = {
    "C01": [
        "Partial: covers the node encoders, the node decoder/accessors and integer packing (3 of the 6 anchored mechanisms) for every node with <=2 (thorough: 3) transitions, plus symbolic point reads of the bytes the *current* builder produces for a seeded artifact family. The insertion algorithm for arbitrary key sequences and the streaming reader are outside (CBMC runs out of memory on Builder::insert and StreamWithState; DESIGN.md section 3).",
        "Builder invariants assumed for symbolic nodes: inputs strictly increasing; a non-final node has final output 0; targets are 0 or earlier addresses; last_addr is the byte before the node or NONE_ADDRESS.",
        "Node start fixed at 20 (1-byte deltas); all delta widths are covered by the delta codec lemma for every address pair.",
        "Pointer-validity instrumentation and assertion-reachability checks are off (no unsafe in the crate; vacuity guarded by cover witnesses and a must-fail twin).",
    ],
    "C02": [
        "FSTs: the seeded members of the artifact family, built natively by the current tree on this run (quick: 10, thorough: ~55); probes: every byte string of length 0..3 (thorough 0..4). FSTs outside the family and longer probes are outside the claim.",
        "The model is the inserted key/value list itself, compiled into the harness as explicit comparisons.",
    ],
    "C06": [
        "Partial: the ordering decision as an inductive step over the only state it reads (the last accepted key), keys of length 0..2, through the guarded wrapper of the private check_last_key.",
        "Hand glue: Builder::add/insert call check_last_key(..)? before insert_output, so nothing is mutated on rejection; extend_iter/extend_stream/from_iter propagate with `?` (read, not solver-decided). The finished FST's content after an error is outside.",
    ],
    "C07": [
        "One inductive step: write_all of a buffer of concrete length (1..4, thorough ..8) through CountingWriter from an arbitrary prior (count, checksum) state, over a sink with a symbolic acceptance length per call and <=1 (thorough 2) Interrupted returns.",
        "Hand glue: every builder emission goes through write_all on the counting writer; the trailer through write_all on the inner sink; write_all (std) delivers exactly the buffer's bytes in order for any such schedule.",
        "The sink's reference checksum is the bitwise CRC-32C proven equal to the crate's update by C08's lemmas.",
    ],
    "C08": [
        "Length-independence by decomposition: byte step, tails <=15, block step affine + basis agreement; the induction over blocks and tail is a hand argument (update = while len>=16 {block}; for b in rest {byte step}).",
        "That the 16-fold bitwise reference step is GF(2)-affine is a mathematical fact about CRCs; it is discharged by the solver only in the thorough tier (c08_reference16_affine).",
        "Corruption: single altered byte anywhere and bursts <=4 bytes inside the checksummed region, via injectivity lemmas + masking injectivity (hand glue). Bursts straddling data and trailer, and whole-file mutation at N=36, are thorough-tier only and may be undecided.",
        "Built FSTs verify: by C07's step (checksum == checksum of emitted bytes) + the trailer harness on the empty FST (thorough) + native observation on every artifact at generation time.",
    ],
    "C09": [
        "Codec/header level: node layouts for every node with <=2 (thorough 3) transitions against an independent decoder written from the format description (shared/layout.rs, frozen copy of the common-input table); header/footer of the empty FST for every type value.",
        "Tiling and backward-only targets for whole builds are checked natively at generation time for every artifact by the independent whole-file reader and by byte-equality with the independent reference encoder (concrete cross-check, not a solver result).",
    ],
    "C10": [
        "Legacy files come from the harness-side reference encoder (v1: no index, v2: index, no checksum), cross-validated on every run: its v3 output is byte-identical to the current builder's for all 438 artifacts.",
        "Queries on legacy files: get/contains_key/len/verify with symbolic probes of length 0..2 (thorough 0..3), containers &[u8], Vec<u8>, Cow<[u8]> and map_data. stream/range/search/ops on legacy files and memory maps are outside (C03-C05 not applicable).",
    ],
    "C11": [
        "Partial: every emission primitive, the counting writer, the node encoder (T<=1, thorough 2) and Builder::new + into_inner of an empty builder, single fault at a symbolic call index, kinds: 4 ErrorKinds or a zero-length write.",
        "Faults during insert on a non-empty builder are outside (Builder::insert exceeds CBMC).",
    ],
    "C12": [
        "Partial (mechanism): real Registry of 1x1 and 1x2 cells, two inserts and a query with symbolic nodes of concrete transition count. Builder-level minimality, the trie bound and the sharing ratio are outside the solver's reach; node count == minimal is observed natively for every artifact at generation time.",
    ],
    "C16": [
        "Maps: seeded monotone members of the artifact family (<=4 keys quick, <=7 thorough, depth <=3), built by the current tree; every u64 query value; symbolic one-byte caller prefix.",
    ],
    "C18": [
        "Component automata: every DFA with <=3 states over 2 byte classes (byte & 1) with every hint assignment sound for it; prefixes <=4 bytes, continuations <=3 bytes. Product automata of two 3-state components have <=9 (StartsWith: +1) states, so every reachable product state is reached by a prefix of <=9 bytes; prefixes of 5..9 bytes are outside the bound.",
    ],
    "C20": [
        "Every byte string up to N bytes (quick 40; thorough 48, 64) through Fst::new, len, is_empty, fst_type, size, as_bytes, verify, with all of CBMC's checks on. Longer inputs: the header/footer arithmetic depends only on len>=36 and the last 20 bytes; the CRC loop over longer inputs is C08's subject.",
        "No unsafe: the harness crate's build of fst runs under `-F unsafe_code` in a separate compiler pass (a compiler verdict, not a solver result).",
    ],
}


if __name__ == "__main__":
    main()
