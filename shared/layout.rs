// Independent decoder for one node of the documented on-disk layout
// (versions 1-3). Shares no code with the `fst` crate: it is written from the
// format description only, and is used both by the native generator (whole
// files) and by the solver harnesses (single nodes). Loops are explicit and
// bounded so that a bounded model checker can unwind them.

pub const MAX_T: usize = 256;

#[derive(Clone, Copy, PartialEq, Eq, Debug)]
pub enum Form {
    EmptyFinal,
    OneTransNext,
    OneTrans,
    AnyTrans,
}

#[derive(Clone, Copy, Debug)]
pub struct NodeHead {
    pub form: Form,
    pub is_final: bool,
    pub final_output: u64,
    pub ntrans: usize,
    /// address of the node's first byte
    pub start: usize,
    /// address of the node's last byte (its "address")
    pub addr: usize,
    // private layout cursors
    tsize: usize,
    osize: usize,
    inputs_hi: usize, // one past the position of input 0 (inputs are stored in reverse)
    deltas_hi: usize,
    outs_hi: usize,
    single_input: u8,
}

#[inline]
fn read_le(data: &[u8], at: usize, n: usize) -> u64 {
    let mut v: u64 = 0;
    let mut i = 0;
    while i < n {
        v |= (data[at + i] as u64) << (8 * i as u32);
        i += 1;
    }
    v
}

/// Decode the fixed part of the node whose last byte is at `addr`.
pub fn decode_head(data: &[u8], addr: usize, version: u64) -> NodeHead {
    if addr == 0 {
        return NodeHead {
            form: Form::EmptyFinal,
            is_final: true,
            final_output: 0,
            ntrans: 0,
            start: 0,
            addr: 0,
            tsize: 0,
            osize: 0,
            inputs_hi: 0,
            deltas_hi: 0,
            outs_hi: 0,
            single_input: 0,
        };
    }
    let state = data[addr];
    let top = state >> 6;
    if top == 0b11 || top == 0b10 {
        let idx = state & 0x3f;
        let (inp, ilen) = if idx == 0 {
            (data[addr - 1], 1usize)
        } else {
            (super::format_table::FORMAT_COMMON_INPUTS_INV[(idx - 1) as usize], 0usize)
        };
        if top == 0b11 {
            let start = addr - ilen;
            return NodeHead {
                form: Form::OneTransNext,
                is_final: false,
                final_output: 0,
                ntrans: 1,
                start,
                addr,
                tsize: 0,
                osize: 0,
                inputs_hi: 0,
                deltas_hi: 0,
                outs_hi: 0,
                single_input: inp,
            };
        }
        let p = addr - ilen - 1; // pack-size byte
        let sizes = data[p];
        let tsize = (sizes >> 4) as usize;
        let osize = (sizes & 0x0f) as usize;
        let deltas_hi = p;
        let outs_hi = p - tsize;
        let start = outs_hi - osize;
        return NodeHead {
            form: Form::OneTrans,
            is_final: false,
            final_output: 0,
            ntrans: 1,
            start,
            addr,
            tsize,
            osize,
            inputs_hi: 0,
            deltas_hi,
            outs_hi,
            single_input: inp,
        };
    }
    // any-trans
    let is_final = state & 0b0100_0000 != 0;
    let mut n = (state & 0x3f) as usize;
    let mut nlen = 0usize;
    if n == 0 {
        nlen = 1;
        n = data[addr - 1] as usize;
        if n == 1 {
            n = 256;
        }
    }
    let p = addr - nlen - 1; // pack-size byte
    let sizes = data[p];
    let tsize = (sizes >> 4) as usize;
    let osize = (sizes & 0x0f) as usize;
    let index = if version >= 2 && n > 32 { 256 } else { 0 };
    let inputs_hi = p - index;
    let deltas_hi = inputs_hi - n;
    let outs_hi = deltas_hi - n * tsize;
    let after_outs = outs_hi - n * osize;
    let (final_output, start) = if is_final && osize > 0 {
        (read_le(data, after_outs - osize, osize), after_outs - osize)
    } else {
        (0, after_outs)
    };
    NodeHead {
        form: Form::AnyTrans,
        is_final,
        final_output,
        ntrans: n,
        start,
        addr,
        tsize,
        osize,
        inputs_hi,
        deltas_hi,
        outs_hi,
        single_input: 0,
    }
}

/// The i-th transition in ascending input order: (input, output, target).
pub fn decode_trans(data: &[u8], h: &NodeHead, i: usize) -> (u8, u64, usize) {
    match h.form {
        Form::EmptyFinal => (0, 0, 0),
        Form::OneTransNext => (h.single_input, 0, h.start - 1),
        Form::OneTrans => {
            let delta = read_le(data, h.deltas_hi - h.tsize, h.tsize) as usize;
            let out = if h.osize == 0 { 0 } else { read_le(data, h.outs_hi - h.osize, h.osize) };
            let target = if delta == 0 { 0 } else { h.start - delta };
            (h.single_input, out, target)
        }
        Form::AnyTrans => {
            let inp = data[h.inputs_hi - 1 - i];
            let delta = read_le(data, h.deltas_hi - (i + 1) * h.tsize, h.tsize) as usize;
            let out = if h.osize == 0 { 0 } else { read_le(data, h.outs_hi - (i + 1) * h.osize, h.osize) };
            let target = if delta == 0 { 0 } else { h.start - delta };
            (inp, out, target)
        }
    }
}

/// For indexed nodes (version >= 2, more than 32 transitions): index[b].
pub fn decode_index(data: &[u8], h: &NodeHead, version: u64, b: u8) -> Option<usize> {
    if h.form == Form::AnyTrans && version >= 2 && h.ntrans > 32 {
        let i = data[h.inputs_hi + b as usize] as usize;
        if i >= h.ntrans {
            None
        } else {
            Some(i)
        }
    } else {
        None
    }
}

/// Independent point lookup over a whole file: header/footer by the format
/// description, then one transition per key byte (linear scan, ascending
/// inputs), outputs summed, final output added at a final node.
pub fn indep_get(data: &[u8], key: &[u8]) -> Option<u64> {
    let version = read_le(data, 0, 8);
    let end = if version >= 3 { data.len() - 4 } else { data.len() };
    let mut addr = read_le(data, end - 8, 8) as usize;
    let mut acc: u64 = 0;
    let mut i = 0;
    while i < key.len() {
        let h = decode_head(data, addr, version);
        let mut found = false;
        let mut j = 0;
        while j < h.ntrans {
            let (inp, out, tgt) = decode_trans(data, &h, j);
            if inp == key[i] {
                acc += out;
                addr = tgt;
                found = true;
                break;
            }
            j += 1;
        }
        if !found {
            return None;
        }
        i += 1;
    }
    let h = decode_head(data, addr, version);
    if h.is_final {
        Some(acc + h.final_output)
    } else {
        None
    }
}

/// Key count stored in the footer.
pub fn indep_len(data: &[u8]) -> u64 {
    let version = read_le(data, 0, 8);
    let end = if version >= 3 { data.len() - 4 } else { data.len() };
    read_le(data, end - 16, 8)
}

/// For a root with an index table (version >= 2, more than 32 transitions):
/// index[b] is the position of input b among the inputs (ascending order), or
/// "absent" (>= count) iff no transition has input b.
pub fn indep_root_index_ok(data: &[u8], b: u8) -> bool {
    let version = read_le(data, 0, 8);
    let end = if version >= 3 { data.len() - 4 } else { data.len() };
    let root = read_le(data, end - 8, 8) as usize;
    let h = decode_head(data, root, version);
    if !(h.form == Form::AnyTrans && version >= 2 && h.ntrans > 32) {
        return true;
    }
    let mut want: Option<usize> = None;
    let mut j = 0;
    while j < h.ntrans {
        let (inp, _, _) = decode_trans(data, &h, j);
        if inp == b {
            want = Some(j);
        }
        j += 1;
    }
    decode_index(data, &h, version, b) == want
}
