#!/bin/bash
# confirm_mutant.sh <worktree> <a|b>: in the scratch worktree, confirm that the
# seeded change compiles, passes the full existing suite, and that its
# demonstration fails with the change and passes without it.
W=$1; X=$2
cd "$W" || exit 9
export CARGO_TARGET_DIR=$W/target CARGO_NET_OFFLINE=true
git checkout -q -- src fst-bin 2>/dev/null
rm -f tests/seeded_demo_*.rs
git apply seeded/$X.diff || { echo "RESULT $W $X apply-failed"; exit 1; }
SUITE=$(cargo test --workspace --no-fail-fast --offline 2>&1 | grep -E "^test result" | awk '{p+=$4; f+=$6} END {print p" passed "f" failed"}')
cp seeded/demo_$X.rs tests/seeded_demo_$X.rs
cargo test --offline --features levenshtein --test seeded_demo_$X > seeded/confirm_${X}_mut.txt 2>&1; RM=$?
git checkout -q -- src fst-bin
cargo test --offline --features levenshtein --test seeded_demo_$X > seeded/confirm_${X}_clean.txt 2>&1; RC=$?
rm -f tests/seeded_demo_$X.rs
echo "RESULT $W $X suite_with_change=[$SUITE] demo_with_change_rc=$RM demo_clean_rc=$RC"
