#!/bin/bash
# run_mutant.sh <seeded id> <property> [tier]: apply the seeded patch to /repo, run the
# property's registered check, undo the patch. Prints RESULT line.
ID=$1; P=$2; TIER=${3:-quick}
cd /verif
git -C /repo diff --quiet || { echo "RESULT $ID $P repo-dirty"; exit 9; }
git -C /repo apply /verif/seeded/$ID/patch.diff || { echo "RESULT $ID $P apply-failed"; exit 9; }
T0=$(date +%s)
./check.py $P --tier $TIER > /verif/logs/mutant_${ID}_${P}.out 2>&1; RC=$?
T1=$(date +%s)
git -C /repo checkout -- .
V=$(grep -c "^VIOLATION" /verif/logs/mutant_${ID}_${P}.out)
echo "RESULT $ID $P rc=$RC violations=$V secs=$((T1-T0))"
grep -E "^VIOLATION|^  \"|INCONCLUSIVE:|^  [a-z0-9_:]+:" /verif/logs/mutant_${ID}_${P}.out | head -6
